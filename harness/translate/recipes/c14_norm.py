"""C14 helper: normalisation of Python source before structural facts are read from it.

The structure tables of C14 must state *what the code does* (which keys are read, what is written where, which value is
returned on which path), not how it is spelled.  Before a fact is rendered,
  * calls of private helpers of the same module / class whose body is a single `return <expr>` are inlined,
  * single-assignment locals are substituted by their defining expression (renames, hoisted sub-expressions, temporaries
    that are only returned),
  * spellings are canonicalised: `len(x.shape)` / `x.dim()` -> `x.ndim`, `x.size(i)` -> `x.shape[i]`, `slice(a, b)` objects ->
    `a:b` (and `.start` / `.stop` of them), list / tuple literals in `in` tests, tuple arithmetic `(-1,) + (1,) * k` and
    `f(*(a, b))` -> `f(a, b)`, `x is not None` for `not x is None`,
  * a function body is read as a decision tree (if / elif / else chains == early returns == conditional expressions).
Whatever is not understood raises `Untranslatable` (the table is then `skipped`, never a mismatch)."""
from __future__ import annotations

import ast
import copy

from ..gen import Untranslatable


# ---------------------------------------------------------------------------------------------------- helpers / locals
def _functions(tree) -> dict:
    """private single-expression helpers of a module: name -> FunctionDef (module level `_f`, methods `Cls._m`)"""
    out = {}
    for n in tree.body:
        if isinstance(n, ast.FunctionDef):
            out[n.name] = n
        elif isinstance(n, ast.ClassDef):
            for m in n.body:
                if isinstance(m, ast.FunctionDef):
                    out["self." + m.name] = m
    return out


def _single_return(fn: ast.FunctionDef):
    body = [s for s in fn.body if not (isinstance(s, ast.Expr) and isinstance(s.value, ast.Constant))]
    if len(body) == 1 and isinstance(body[0], ast.Return) and body[0].value is not None:
        return body[0].value
    return None


class _Subst(ast.NodeTransformer):
    def __init__(self, env):
        self.env = env

    def visit_Name(self, node):
        if isinstance(node.ctx, ast.Load) and node.id in self.env:
            return copy.deepcopy(self.env[node.id])
        return node


def subst(expr, env, depth=6):
    """replace loads of the names in `env` by their expressions, to a fixpoint"""
    for _ in range(depth):
        before = ast.dump(expr)
        expr = _Subst(env).visit(copy.deepcopy(expr))
        if ast.dump(expr) == before:
            break
    return expr


def inline_helpers(expr, tree, depth=3):
    """inline calls of private helpers (`_f(...)`, `self._m(...)`) whose body is a single return expression"""
    funcs = _functions(tree)

    class Inl(ast.NodeTransformer):
        def visit_Call(self, node):
            self.generic_visit(node)
            name = ast.unparse(node.func)
            base = name.split(".")[-1]
            if not base.startswith("_") or base.startswith("__") or name not in funcs:
                return node
            fn = funcs[name]
            ret = _single_return(fn)
            if ret is None:
                return node
            params = [a.arg for a in fn.args.args]
            if name.startswith("self.") and params and params[0] == "self":
                params = params[1:]
            if any(isinstance(a, ast.Starred) for a in node.args) or any(k.arg is None for k in node.keywords):
                return node
            env = {}
            for p, a in zip(params, node.args):
                env[p] = a
            for k in node.keywords:
                env[k.arg] = k.value
            defaults = dict(zip(params[len(params) - len(fn.args.defaults):], fn.args.defaults))
            for p in params:
                if p not in env:
                    if p not in defaults:
                        return node
                    env[p] = defaults[p]
            return _Subst(env).visit(copy.deepcopy(ret))

    for _ in range(depth):
        before = ast.dump(expr)
        expr = Inl().visit(copy.deepcopy(expr))
        if ast.dump(expr) == before:
            break
    return expr


def assigned_names(node) -> dict:
    """name -> number of binding occurrences (assignment, augmented assignment, for target, with-as, del) in `node`"""
    cnt: dict[str, int] = {}
    for n in ast.walk(node):
        if isinstance(n, ast.Name) and isinstance(n.ctx, (ast.Store, ast.Del)):
            cnt[n.id] = cnt.get(n.id, 0) + 1
    return cnt


def local_env(stmts, scope, exclude=()) -> dict:
    """single-assignment locals defined at the top level of `stmts` (bound exactly once in the whole `scope`) -> expression"""
    cnt = assigned_names(scope)
    env = {}
    for st in stmts:
        if isinstance(st, ast.Assign) and len(st.targets) == 1 and isinstance(st.targets[0], ast.Name):
            n = st.targets[0].id
            if cnt.get(n, 0) == 1 and n not in exclude:
                env[n] = st.value
    return env


# ---------------------------------------------------------------------------------------------------- canonical spelling
def _tuple_items(e):
    """items of a tuple-valued expression built from literals, `+` and starred tuples; None if not of that form"""
    if isinstance(e, (ast.Tuple, ast.List)):
        out = []
        for x in e.elts:
            if isinstance(x, ast.Starred):
                inner = _tuple_items(x.value)
                out += inner if inner is not None else [x]
            else:
                out.append(x)
        return out
    if isinstance(e, ast.BinOp) and isinstance(e.op, ast.Add):
        a, b = _tuple_items(e.left), _tuple_items(e.right)
        if a is None and b is None:
            return None
        a = a if a is not None else [ast.Starred(value=e.left, ctx=ast.Load())]
        b = b if b is not None else [ast.Starred(value=e.right, ctx=ast.Load())]
        return a + b
    return None


class _Canon(ast.NodeTransformer):
    def visit_Call(self, node):
        self.generic_visit(node)
        # functools.partial(f, *a, **kw)(*b, **kw2) == f(*a, *b, **kw, **kw2)
        if isinstance(node.func, ast.Call) and ast.unparse(node.func.func) in ("functools.partial", "partial") and node.func.args:
            inner = node.func
            kws = {k.arg: k for k in inner.keywords}
            kws.update({k.arg: k for k in node.keywords})
            node = ast.Call(func=inner.args[0], args=list(inner.args[1:]) + list(node.args), keywords=list(kws.values()))
        f = ast.unparse(node.func)
        # len(x.shape), x.dim() -> x.ndim ; x.size(i) -> x.shape[i]
        if f == "len" and len(node.args) == 1 and isinstance(node.args[0], ast.Attribute) and node.args[0].attr == "shape":
            return ast.Attribute(value=node.args[0].value, attr="ndim", ctx=ast.Load())
        if isinstance(node.func, ast.Attribute) and node.func.attr == "dim" and not node.args and not node.keywords:
            return ast.Attribute(value=node.func.value, attr="ndim", ctx=ast.Load())
        if isinstance(node.func, ast.Attribute) and node.func.attr == "size" and len(node.args) == 1 and not node.keywords:
            return ast.Subscript(value=ast.Attribute(value=node.func.value, attr="shape", ctx=ast.Load()),
                                 slice=node.args[0], ctx=ast.Load())
        # f(*(a, b), c) -> f(a, b, c)
        args = []
        for a in node.args:
            if isinstance(a, ast.Starred):
                items = _tuple_items(a.value)
                if items is not None:
                    args += items
                    continue
            args.append(a)
        node.args = args
        # torch.zeros((a, *b), ...) -> torch.zeros(a, *b, ...)
        if f in ("torch.zeros", "torch.empty", "torch.ones") and len(node.args) == 1:
            items = _tuple_items(node.args[0])
            if items is not None:
                node.args = items
        return node

    def visit_Attribute(self, node):
        self.generic_visit(node)
        # slice(a, b).start / .stop
        v = node.value
        if isinstance(v, ast.Call) and ast.unparse(v.func) == "slice" and len(v.args) == 2 and not v.keywords:
            if node.attr == "start":
                return v.args[0]
            if node.attr == "stop":
                return v.args[1]
        return node

    def visit_Subscript(self, node):
        self.generic_visit(node)

        def fix(s):
            if isinstance(s, ast.Call) and ast.unparse(s.func) == "slice" and len(s.args) in (2, 3) and not s.keywords:
                return ast.Slice(lower=s.args[0], upper=s.args[1], step=s.args[2] if len(s.args) == 3 else None)
            return s
        if isinstance(node.slice, ast.Tuple):
            node.slice.elts = [fix(e) for e in node.slice.elts]
        else:
            node.slice = fix(node.slice)
        return node

    def visit_Compare(self, node):
        self.generic_visit(node)
        if len(node.ops) == 1 and isinstance(node.ops[0], (ast.In, ast.NotIn)) and isinstance(node.comparators[0], (ast.List, ast.Tuple, ast.Set)):
            elts = sorted(node.comparators[0].elts, key=ast.unparse)
            node.comparators = [ast.Tuple(elts=elts, ctx=ast.Load())]
        return node

    def visit_UnaryOp(self, node):
        self.generic_visit(node)
        if isinstance(node.op, ast.Not):
            n = negate(node.operand, plain=True)
            if n is not None:
                return n
        return node

    def visit_BinOp(self, node):
        self.generic_visit(node)
        items = _tuple_items(node) if isinstance(node.op, ast.Add) else None
        if items is not None:
            return ast.Tuple(elts=items, ctx=ast.Load())
        return node


_NEG = {ast.Is: ast.IsNot, ast.IsNot: ast.Is, ast.Eq: ast.NotEq, ast.NotEq: ast.Eq, ast.In: ast.NotIn, ast.NotIn: ast.In,
        ast.Lt: ast.GtE, ast.GtE: ast.Lt, ast.Gt: ast.LtE, ast.LtE: ast.Gt}


def negate(cond, plain=False):
    if isinstance(cond, ast.Compare) and len(cond.ops) == 1 and type(cond.ops[0]) in _NEG:
        return ast.Compare(left=cond.left, ops=[_NEG[type(cond.ops[0])]()], comparators=cond.comparators)
    if isinstance(cond, ast.UnaryOp) and isinstance(cond.op, ast.Not):
        return cond.operand
    if plain:
        return None
    return ast.UnaryOp(op=ast.Not(), operand=cond)


def canon(expr):
    expr = _Canon().visit(copy.deepcopy(expr))
    return ast.fix_missing_locations(expr)


def keywords_by_signature(expr, tree):
    """calls of module-level functions of `tree`: positional arguments after the first become keyword arguments, keywords in
    signature order (f(x, s, resolution=r) == f(x, scaling_factors=s, resolution=r))"""
    funcs = {n.name: n for n in tree.body if isinstance(n, ast.FunctionDef)}

    class K(ast.NodeTransformer):
        def visit_Call(self, node):
            self.generic_visit(node)
            if isinstance(node.func, ast.Name) and node.func.id in funcs and not any(isinstance(a, ast.Starred) for a in node.args) \
                    and all(k.arg is not None for k in node.keywords):
                fn = funcs[node.func.id]
                params = [a.arg for a in fn.args.args]
                if len(node.args) > len(params) or fn.args.vararg:
                    return node
                kws = {k.arg: k.value for k in node.keywords}
                for p, a in zip(params[1:], node.args[1:]):
                    if p in kws:
                        return node
                    kws[p] = a
                order = {p: i for i, p in enumerate(params)}
                node.args = node.args[:1]
                node.keywords = [ast.keyword(arg=k, value=v) for k, v in sorted(kws.items(), key=lambda kv: order.get(kv[0], 99))]
            return node
    return ast.fix_missing_locations(K().visit(copy.deepcopy(expr)))


def assume(expr, cond_text: str, value: bool = True):
    """simplify conditional expressions whose test is `cond_text`, known to be `value` in this context"""
    class A(ast.NodeTransformer):
        def visit_IfExp(self, node):
            self.generic_visit(node)
            if ast.unparse(node.test) == cond_text:
                return node.body if value else node.orelse
            return node
    return ast.fix_missing_locations(A().visit(copy.deepcopy(expr)))


def norm_expr(expr, env=None, tree=None, depth=6) -> str:
    """canonical text of an expression: helpers inlined, locals substituted, spellings canonicalised
    (`depth=1` when the expressions of `env` are already resolved, e.g. re-assigned names on a path)"""
    if tree is not None:
        expr = inline_helpers(expr, tree)
    if env:
        expr = subst(expr, env, depth)
        if tree is not None:
            expr = inline_helpers(expr, tree)
    return ast.unparse(canon(expr))


# ---------------------------------------------------------------------------------------------------- decision trees
def _terminates(stmts) -> bool:
    return bool(stmts) and isinstance(stmts[-1], (ast.Return, ast.Raise))


def decision_tree(stmts, tree=None, env=None, ignore=lambda st: False) -> list[str]:
    """Leaves of a function body read as a decision tree, in source order:
    `when <cond> and <cond> …: return <expr>` / `raise <Exc>` / effects `do <stmt>` along the way.
    if/elif/else chains, early returns and temporaries that are only returned give the same leaves."""
    env = dict(env or {})
    leaves: list[str] = []

    def fmt(path, what):
        return ("when " + " and ".join(f"({c})" if " or " in c else c for c in path) + ": " if path else "") + what

    def walk(sts, path, env):
        sts = [s for s in sts if not (isinstance(s, ast.Expr) and isinstance(s.value, ast.Constant)) and not ignore(s)]
        for i, st in enumerate(sts):
            rest = sts[i + 1:]
            if isinstance(st, ast.Return):
                leaves.append(fmt(path, "return " + (norm_expr(st.value, env, tree, 1) if st.value is not None else "None")))
                return
            if isinstance(st, ast.Raise):
                e = st.exc.func if isinstance(st.exc, ast.Call) else st.exc
                leaves.append(fmt(path, "raise " + (ast.unparse(e) if e is not None else "")))
                return
            if isinstance(st, ast.If):
                c = norm_expr(st.test, env, tree, 1)
                nc = norm_expr(negate(st.test), env, tree, 1)
                # both branches continue with the rest of the statements (a guarded block == if/else with empty else)
                walk(st.body + ([] if _terminates(st.body) else rest), path + [c], dict(env))
                walk(st.orelse + ([] if _terminates(st.orelse) else rest), path + [nc], dict(env))
                return
            if isinstance(st, ast.Pass):
                continue
            if isinstance(st, ast.Assign) and len(st.targets) == 1 and isinstance(st.targets[0], ast.Name):
                # a local: remembered, substituted where it is used (its last value on this path)
                env[st.targets[0].id] = subst(st.value, env, 1)
                continue
            if isinstance(st, ast.Expr):
                leaves.append(fmt(path, "do " + norm_expr(st.value, env, tree, 1)))
                continue
            if isinstance(st, ast.Assign) and len(st.targets) == 1 and isinstance(st.targets[0], (ast.Attribute, ast.Subscript)):
                leaves.append(fmt(path, f"do {norm_expr(st.targets[0], env, tree, 1)}={norm_expr(st.value, env, tree, 1)}"))
                continue
            raise Untranslatable(f"statement not understood in a decision tree: {ast.unparse(st)[:60]}")
    walk(list(stmts), [], env)
    return sorted(leaves)
