"""C10 — expression translation that *inlines private helpers* and is insensitive to the names of locals.

`InlineTr` extends `ExprTr`: a call of a private module-level function (`_name(...)`) is replaced by the value(s) its body
returns, evaluated symbolically with the parameters bound to the translated arguments (straight-line bodies: assignments,
guards, one `return`, possibly of a tuple).  Locals are carried as Lean *expressions* (no `let`s), so a generated
definition depends only on what is computed, not on how intermediate values are called or where they are computed.

Builders (each returns the Lean source of one `def`):
* `local_value`        — value of a named local of a scope, also looked for inside the private helpers the scope calls
* `return_slice_bound` — lower / upper bound of one of the slices of the returned `data[..., a:b, c:d]`
* `assign_rhs`         — right-hand side of an item assignment (`bbox[idx + offset] = …`)
* `pad_list`           — the flat list handed to `F.pad`, literally as built (iteration order, per-axis pair, reversals);
                         the Lean bridge normalises the reversals and proves the arithmetic
"""
from __future__ import annotations

import ast

from ..gen import Kernel, find_for
from ..pyexpr import ExprTr, Untranslatable, emit_def


def private_functions(tree: ast.Module) -> dict[str, ast.FunctionDef]:
    return {n.name: n for n in tree.body if isinstance(n, ast.FunctionDef) and n.name.startswith("_")}


class InlineTr(ExprTr):
    def __init__(self, binds, funcs: dict[str, ast.FunctionDef], bool_binds=None, depth: int = 0):
        super().__init__(binds, bool_binds)
        self.funcs = funcs
        self.depth = depth
        self.captured: dict[str, str] = {}       # locals of inlined helpers (first definition wins)

    # ---- calls of private helpers
    def _is_helper_call(self, node) -> bool:
        return isinstance(node, ast.Call) and isinstance(node.func, ast.Name) and node.func.id in self.funcs

    def inline(self, call: ast.Call) -> list[str]:
        if self.depth > 3:
            raise Untranslatable("helper chain deeper than 3")
        fn = self.funcs[call.func.id]
        params = [a.arg for a in fn.args.posonlyargs + fn.args.args]
        if any(isinstance(a, ast.Starred) for a in call.args) or any(k.arg is None for k in call.keywords):
            raise Untranslatable(f"starred arguments in the call of `{fn.name}`")
        bound: dict[str, str] = {}
        for p, a in zip(params, call.args):
            bound[p] = self.int(a)
        for k in call.keywords:
            bound[k.arg] = self.int(k.value)
        defaults = dict(zip(params[::-1], fn.args.defaults[::-1]))
        for p in params:
            if p not in bound:
                if p not in defaults:
                    raise Untranslatable(f"argument `{p}` of `{fn.name}` not supplied")
                bound[p] = ExprTr({}).int(defaults[p])
        sub = InlineTr({}, self.funcs, None, self.depth + 1)
        sub.locals = dict(bound)
        vals = sub.run_body(fn.body)
        for k_, v in {**sub.locals, **sub.captured}.items():
            if k_ not in params:
                self.captured.setdefault(k_, v)
        if vals is None:
            raise Untranslatable(f"`{fn.name}` does not return a value on a straight-line path")
        return vals

    def int(self, node: ast.AST) -> str:
        if self._is_helper_call(node):
            vals = self.inline(node)
            if len(vals) != 1:
                raise Untranslatable(f"`{node.func.id}` returns {len(vals)} values where one is used")
            return vals[0]
        if isinstance(node, ast.Subscript) and self._is_helper_call(node.value) and isinstance(node.slice, ast.Constant) \
                and isinstance(node.slice.value, int):
            vals = self.inline(node.value)
            try:
                return vals[node.slice.value]
            except IndexError:
                raise Untranslatable("index outside the tuple a helper returns")
        return super().int(node)

    def values(self, node: ast.AST) -> list[str]:
        """a tuple / list literal or a helper returning a tuple -> its components"""
        if isinstance(node, (ast.Tuple, ast.List)):
            return [self.int(e) for e in node.elts]
        if self._is_helper_call(node):
            return self.inline(node)
        if isinstance(node, ast.Call) and isinstance(node.func, ast.Name) and node.func.id in ("list", "tuple") and len(node.args) == 1:
            return self.values(node.args[0])
        if isinstance(node, ast.Name) and node.id in self.tuples:
            return self.tuples[node.id]
        raise Untranslatable(f"not a pair: `{ast.unparse(node)[:60]}`")

    tuples: dict[str, list[str]] = {}

    # ---- straight-line bodies
    def run_body(self, stmts: list[ast.stmt]):
        """sequential symbolic evaluation; returns the values of the first top-level `return` (None when there is none)"""
        self.tuples = dict(self.tuples)
        for st in stmts:
            if isinstance(st, ast.Expr) and isinstance(st.value, ast.Constant):
                continue                                                   # docstring
            if isinstance(st, ast.Return):
                if st.value is None:
                    return None
                try:
                    return self.values(st.value)
                except Untranslatable:
                    return [self.int(st.value)]
            if isinstance(st, (ast.Assign, ast.AnnAssign)):
                tgt = st.targets[0] if isinstance(st, ast.Assign) and len(st.targets) == 1 else getattr(st, "target", None)
                val = st.value
                if val is None or tgt is None:
                    continue
                if isinstance(tgt, ast.Name):
                    try:
                        self.locals[tgt.id] = "(" + self.int(val) + ")"
                        self.tuples.pop(tgt.id, None)
                    except Untranslatable:
                        self.locals.pop(tgt.id, None)
                        try:
                            self.tuples[tgt.id] = self.values(val)
                        except Untranslatable:
                            self.tuples.pop(tgt.id, None)
                    continue
                if isinstance(tgt, (ast.Tuple, ast.List)) and all(isinstance(e, ast.Name) for e in tgt.elts):
                    try:
                        vals = self.values(val)
                    except Untranslatable:
                        vals = None
                    for j, e in enumerate(tgt.elts):
                        if vals is not None and len(vals) == len(tgt.elts):
                            self.locals[e.id] = "(" + vals[j] + ")"
                        else:
                            self.locals.pop(e.id, None)
                    continue
            if isinstance(st, ast.AugAssign) and isinstance(st.target, ast.Name):
                try:
                    self.locals[st.target.id] = "(" + self.int(ast.BinOp(left=ast.Name(id=st.target.id, ctx=ast.Load()), op=st.op,
                                                                        right=st.value)) + ")"
                except Untranslatable:
                    self.locals.pop(st.target.id, None)
                continue
            if isinstance(st, ast.If) and all(isinstance(s, ast.Raise) for s in st.body) and not st.orelse:
                continue
            if isinstance(st, (ast.Expr, ast.Raise, ast.Assert, ast.Pass)):
                continue
            for sub in ast.walk(st):                                       # a construct we do not follow: forget what it assigns
                if isinstance(sub, ast.Name) and isinstance(sub.ctx, ast.Store):
                    self.locals.pop(sub.id, None)
                    self.tuples.pop(sub.id, None)
        return None

    def visit_helpers(self, stmts: list[ast.stmt]):
        """evaluate every private-helper call occurring in `stmts` so that the helpers' locals are captured"""
        for st in stmts:
            for n in ast.walk(st):
                if self._is_helper_call(n):
                    try:
                        self.inline(n)
                    except Untranslatable:
                        pass


def _tree_of(fn_file_tree):
    return fn_file_tree


# ---- builders ---------------------------------------------------------------------------------------
def _funcs_for(k: Kernel) -> dict[str, ast.FunctionDef]:
    from ..gen import REPO, parse_file

    return private_functions(parse_file(REPO / k.file))


def local_value(binds: dict[str, str], local: str, scope=None):
    def build(k: Kernel, fn: ast.FunctionDef) -> str:
        tr = InlineTr(binds, _funcs_for(k))
        stmts = scope(fn) if scope else fn.body
        tr.run_body(stmts)
        tr.visit_helpers(stmts)
        if local in tr.locals:
            return emit_def(k.name, k.params, [], tr.locals[local], k.ret_type)
        if local in tr.captured:
            return emit_def(k.name, k.params, [], tr.captured[local], k.ret_type)
        raise Untranslatable(f"local `{local}` found neither in the scope nor in the private helpers it calls")
    return build


def return_slice_bound(binds: dict[str, str], from_last: int, which: str):
    """`return data[..., a:b, c:d]`: bound `which` ('lower' | 'upper') of the slice `from_last` positions from the end"""
    def build(k: Kernel, fn: ast.FunctionDef) -> str:
        tr = InlineTr(binds, _funcs_for(k))
        ret = None
        for st in fn.body:
            if isinstance(st, ast.Return):
                ret = st
                break
        tr.run_body([s for s in fn.body if not isinstance(s, ast.Return)])
        if ret is None or not isinstance(ret.value, ast.Subscript):
            raise Untranslatable("no `return data[...]`")
        idx = ret.value.slice
        elts = idx.elts if isinstance(idx, ast.Tuple) else [idx]
        if len(elts) < from_last or not isinstance(elts[-from_last], ast.Slice):
            raise Untranslatable(f"returned subscript has no slice {from_last} from the end")
        if not all(isinstance(e, ast.Constant) and e.value is Ellipsis for e in elts[:-2]) or len(elts) != 3:
            raise Untranslatable(f"unexpected index `{ast.unparse(idx)}`")
        sl = elts[-from_last]
        if sl.step is not None:
            raise Untranslatable("strided slice")
        node = sl.lower if which == "lower" else sl.upper
        if node is None:
            raise Untranslatable("open slice bound")
        return emit_def(k.name, k.params, [], tr.int(node), k.ret_type)
    return build


def assign_rhs(binds: dict[str, str], target_text: str):
    def build(k: Kernel, fn: ast.FunctionDef) -> str:
        tr = InlineTr(binds, _funcs_for(k))
        for st in ast.walk(fn):
            if isinstance(st, ast.Assign) and len(st.targets) == 1 and ast.unparse(st.targets[0]) == target_text:
                return emit_def(k.name, k.params, [], tr.int(st.value), k.ret_type)
        raise Untranslatable(f"assignment to `{target_text}` not found")
    return build


_REV_TEXT = ("{}[::-1]", "list(reversed({}))", "list({}[::-1])", "tuple(reversed({}))", "tuple({}[::-1])", "reversed({})")


def pad_list(k: Kernel, fn: ast.FunctionDef) -> str:
    """`pad_tensor`: the list handed to `F.pad`, as built: a loop over the (target, input) size pairs (forwards or
    `reversed`), two values appended per pair (possibly computed by a private helper), optional reversal(s) of the list.
    Emitted literally; `Bridge/C10.lean` normalises `reverse ∘ flatMap` and proves the arithmetic."""
    funcs = _funcs_for(k)
    loop = find_for(fn, 0)
    it = loop.iter
    if isinstance(it, ast.Call) and ast.unparse(it.func) == "enumerate" and len(it.args) == 1:
        it = it.args[0]
        if not (isinstance(loop.target, ast.Tuple) and len(loop.target.elts) == 2):
            raise Untranslatable("unexpected enumerate target")
        pair = loop.target.elts[1]
    else:
        pair = loop.target
    if not (isinstance(pair, ast.Tuple) and len(pair.elts) == 2 and all(isinstance(e, ast.Name) for e in pair.elts)):
        raise Untranslatable(f"unexpected loop target `{ast.unparse(loop.target)}`")
    t_name, i_name = pair.elts[0].id, pair.elts[1].id
    # iteration order: strip reversals around zip(target_shape, input_shape)
    text = ast.unparse(it).replace(" ", "")
    n_rev = 0
    changed = True
    while changed:
        changed = False
        for pat in ("reversed(list({}))", "list(reversed(list({})))", "reversed({})", "list({})[::-1]", "{}[::-1]", "list({})"):
            pre, post = pat.split("{}")
            if text.startswith(pre) and text.endswith(post) and len(text) > len(pre) + len(post):
                inner = text[len(pre):len(text) - len(post)] if post else text[len(pre):]
                if inner.count("(") == inner.count(")"):
                    text = inner
                    n_rev += ("reversed" in pat) + ("[::-1]" in pat)
                    changed = True
                    break
    if text != "zip(target_shape,input_shape)":
        raise Untranslatable(f"unexpected loop iterable `{ast.unparse(loop.iter)}`")
    # what is appended per pair
    tr = InlineTr({t_name: "t", i_name: "i"}, funcs)
    appended: list[str] = []
    body_rest = []
    for st in loop.body:
        call = st.value if isinstance(st, ast.Expr) and isinstance(st.value, ast.Call) else None
        if call is not None and ast.unparse(call.func) == "pad.extend" and len(call.args) == 1:
            tr.run_body(body_rest)
            body_rest = []
            appended += tr.values(call.args[0])
        elif call is not None and ast.unparse(call.func) == "pad.append" and len(call.args) == 1:
            tr.run_body(body_rest)
            body_rest = []
            appended.append(tr.int(call.args[0]))
        elif isinstance(st, ast.AugAssign) and ast.unparse(st.target) == "pad" and isinstance(st.op, ast.Add):
            tr.run_body(body_rest)
            body_rest = []
            appended += tr.values(st.value)
        else:
            if any(isinstance(n, ast.Name) and n.id == "pad" for n in ast.walk(st)):
                raise Untranslatable(f"unexpected statement using `pad`: `{ast.unparse(st)[:80]}`")
            body_rest.append(st)
    if len(appended) != 2:
        raise Untranslatable(f"{len(appended)} values appended per axis (expected 2)")
    # reversals of the finished list, and the F.pad call
    post_rev = 0
    seen_call = False
    for st in fn.body:
        if st is loop or not any(isinstance(n, ast.Name) and n.id == "pad" for n in ast.walk(st)):
            continue
        txt = ast.unparse(st).replace(" ", "")
        if isinstance(st, (ast.Assign, ast.AnnAssign)) and ast.unparse(st.targets[0] if isinstance(st, ast.Assign) else st.target) == "pad":
            v = ast.unparse(st.value).replace(" ", "") if st.value is not None else "[]"
            if v in [p.format("pad") for p in _REV_TEXT]:
                post_rev += 1
            elif v not in ("[]", "list()"):
                raise Untranslatable(f"unexpected assignment `pad = {v}`")
        elif txt == "pad.reverse()":
            post_rev += 1
        elif "functional.pad(" in txt or "F.pad(" in txt:
            for n in ast.walk(st):
                if isinstance(n, ast.Call) and (ast.unparse(n.func).endswith("functional.pad") or ast.unparse(n.func) == "F.pad"):
                    arg = n.args[1] if len(n.args) >= 2 else next((kw.value for kw in n.keywords if kw.arg == "pad"), None)
                    a = ast.unparse(arg).replace(" ", "") if arg is not None else ""
                    if a == "pad":
                        seen_call = True
                    elif a in [p.format("pad") for p in _REV_TEXT]:
                        seen_call = True
                        post_rev += 1
        else:
            raise Untranslatable(f"unexpected statement using `pad`: `{ast.unparse(st)[:80]}`")
    if not seen_call:
        raise Untranslatable("call `torch.nn.functional.pad(input_image, pad, …)` not found")
    src = "dims" + ".reverse" * n_rev
    return (f"def {k.name} (dims : List (Int × Int)) : List Int :=\n"
            f"  (({src}).flatMap fun (t, i) =>\n    [{appended[0]}, {appended[1]}])" + ".reverse" * post_rev + "\n")
