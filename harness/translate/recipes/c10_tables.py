"""C10 — structural tables of the k-space crop / pad modules (pure AST analysis, imported by recipes/c10.py).

* `self_writes(tree, classes)`      — every write to instance / class / module state outside `__init__`
* `key_accesses(tree, classes)`     — every read / write of the sample dict, with the key expression resolved through
                                      local aliases and through helper functions (call-site binding, defaults)
* `kspace_flow(tree, cls)`          — the chain of calls applied to the k-space tensor from the read of `sample[K]`
                                      to the store `sample[K'] = …`, following nested `def`s and module-level helpers
* `crop_shape_rule(tree)`           — the if-chain of `CropKspace.__call__` that resolves the crop shape

Anything that cannot be understood raises `Untranslatable`; the caller then emits the hand-written table and reports
`skipped` (the property then rests on the exact correspondence of the module ops and on the history oracle).
"""
from __future__ import annotations

import ast

from ..pyexpr import Untranslatable

MUTATORS = {"append", "extend", "update", "add", "pop", "clear", "insert", "setdefault", "remove", "popitem", "discard",
            "__setitem__", "__delitem__", "register_buffer", "register_parameter", "add_module", "copy_", "fill_", "zero_",
            "set_", "resize_"}
MEMO_DECORATORS = {"lru_cache", "cache", "cached_property", "memoize"}
KSPACE_KEYS = {"self.kspace_key", "'kspace'", "'masked_kspace'", "KspaceKey.KSPACE", "KspaceKey.MASKED_KSPACE"}


def class_def(tree: ast.Module, name: str) -> ast.ClassDef:
    for n in tree.body:
        if isinstance(n, ast.ClassDef) and n.name == name:
            return n
    raise Untranslatable(f"class `{name}` not found")


def module_functions(tree: ast.Module) -> dict[str, ast.FunctionDef]:
    return {n.name: n for n in tree.body if isinstance(n, ast.FunctionDef)}


def methods(cls: ast.ClassDef) -> dict[str, ast.FunctionDef]:
    return {n.name: n for n in cls.body if isinstance(n, ast.FunctionDef)}


def call_method(cls: ast.ClassDef) -> ast.FunctionDef:
    m = methods(cls)
    for name in ("__call__", "forward"):
        if name in m:
            return m[name]
    raise Untranslatable(f"`{cls.name}` has neither __call__ nor forward")


def _root_self_attr(node: ast.AST):
    """`self.a`, `self.a[...]`, `self.a.b[...]` -> 'a' ; otherwise None"""
    cur = node
    last = None
    while isinstance(cur, (ast.Attribute, ast.Subscript)):
        if isinstance(cur, ast.Attribute):
            last = cur
        cur = cur.value
    if isinstance(cur, ast.Name) and cur.id == "self" and last is not None:
        # innermost attribute directly on self
        inner = node
        chain = []
        while isinstance(inner, (ast.Attribute, ast.Subscript)):
            if isinstance(inner, ast.Attribute):
                chain.append(inner.attr)
            inner = inner.value
        return chain[-1]
    return None


def _class_root(node: ast.AST, cls_name: str):
    """`type(self).x`, `self.__class__.x`, `ClassName.x` (possibly subscripted) -> 'x'"""
    cur = node
    while isinstance(cur, ast.Subscript):
        cur = cur.value
    if isinstance(cur, ast.Attribute):
        v = cur.value
        t = ast.unparse(v).replace(" ", "")
        if t in ("type(self)", "self.__class__", cls_name):
            return cur.attr
    return None


def _targets(st: ast.stmt):
    if isinstance(st, ast.Assign):
        ts = st.targets
    elif isinstance(st, (ast.AugAssign, ast.AnnAssign)):
        ts = [st.target] if not (isinstance(st, ast.AnnAssign) and st.value is None) else []
    elif isinstance(st, ast.Delete):
        ts = st.targets
    elif isinstance(st, (ast.For, ast.AsyncFor)):
        ts = [st.target]
    elif isinstance(st, (ast.With, ast.AsyncWith)):
        ts = [i.optional_vars for i in st.items if i.optional_vars is not None]
    else:
        ts = []
    out = []
    for t in ts:
        stack = [t]
        while stack:
            x = stack.pop()
            if isinstance(x, (ast.Tuple, ast.List)):
                stack.extend(x.elts)
            elif isinstance(x, ast.Starred):
                stack.append(x.value)
            else:
                out.append(x)
    return out


def _state_writes_in(fn: ast.FunctionDef, cls_name: str) -> list[str]:
    rows = []
    for dec in fn.decorator_list:
        t = ast.unparse(dec)
        if any(m in t for m in MEMO_DECORATORS):
            rows.append(f"memo:{t.split('(')[0]}")
    for n in ast.walk(fn):
        if isinstance(n, (ast.Global, ast.Nonlocal)) and isinstance(n, ast.Global):
            rows.extend(f"global:{g}" for g in n.names)
        for t in _targets(n) if isinstance(n, ast.stmt) else []:
            a = _root_self_attr(t)
            if a is not None:
                rows.append(f"self.{a}")
            c = _class_root(t, cls_name)
            if c is not None:
                rows.append(f"class.{c}")
        if isinstance(n, ast.NamedExpr):
            pass
        if isinstance(n, ast.Call):
            f = n.func
            ft = ast.unparse(f).replace(" ", "")
            if ft in ("setattr", "object.__setattr__", "delattr") and n.args and ast.unparse(n.args[0]) == "self":
                rows.append("self.<setattr>")
            if isinstance(f, ast.Attribute) and f.attr in MUTATORS:
                a = _root_self_attr(f.value)
                if a is not None:
                    rows.append(f"self.{a}.{f.attr}()")
                if isinstance(f.value, ast.Name) and f.value.id == "self":
                    rows.append(f"self.{f.attr}()")
                c = _class_root(f.value, cls_name)
                if c is not None:
                    rows.append(f"class.{c}.{f.attr}()")
        if isinstance(n, ast.Attribute) and n.attr == "__dict__" and isinstance(n.value, ast.Name) and n.value.id == "self":
            rows.append("self.__dict__")
    return rows


def _followed_helpers(fn: ast.FunctionDef, tree: ast.Module, cls: ast.ClassDef, seen=None) -> list[ast.FunctionDef]:
    """module-level functions and methods of the class that `fn` calls (transitively, bounded)"""
    seen = seen if seen is not None else set()
    mods, meths = module_functions(tree), methods(cls)
    out = []
    for n in ast.walk(fn):
        if isinstance(n, ast.Call):
            tgt = None
            if isinstance(n.func, ast.Name) and n.func.id in mods and n.func.id.startswith("_"):
                tgt = mods[n.func.id]
            elif (isinstance(n.func, ast.Attribute) and isinstance(n.func.value, ast.Name) and n.func.value.id == "self"
                  and n.func.attr in meths):
                tgt = meths[n.func.attr]
            if tgt is not None and tgt.name not in seen and tgt is not fn:
                seen.add(tgt.name)
                out.append(tgt)
                out.extend(_followed_helpers(tgt, tree, cls, seen))
    return out


def self_writes(tree: ast.Module, classes: list[str]) -> list[tuple[str, str, str]]:
    """(class, function, what) for every write to instance / class / module state reachable from a call of the
    transform: all methods other than `__init__`, plus private module-level helpers they call"""
    rows = []
    for cname in classes:
        cls = class_def(tree, cname)
        fns = [m for name, m in methods(cls).items() if name != "__init__"]
        extra = []
        for m in fns:
            extra.extend(h for h in _followed_helpers(m, tree, cls) if h not in fns and h not in extra)
        for m in fns + extra:
            for what in _state_writes_in(m, cname):
                rows.append((cname, m.name, what))
    return sorted(set(rows))


# --------------------------------------------------------------------------------------------------
def _norm_key(node: ast.AST, env: dict[str, str]) -> str:
    if isinstance(node, ast.Name) and node.id in env:
        return env[node.id]
    if isinstance(node, ast.Constant) and isinstance(node.value, str):
        return repr(node.value)
    t = ast.unparse(node)
    return {"KspaceKey.KSPACE.value": "KspaceKey.KSPACE", "str(self.kspace_key)": "self.kspace_key"}.get(t, t)


def _local_aliases(fn: ast.FunctionDef, env: dict[str, str]) -> dict[str, str]:
    """single-assignment locals whose value is a name / attribute / string constant: `key = self.kspace_key`"""
    counts: dict[str, int] = {}
    vals: dict[str, ast.AST] = {}
    for n in ast.walk(fn):
        if isinstance(n, ast.stmt):
            for t in _targets(n):
                if isinstance(t, ast.Name):
                    counts[t.id] = counts.get(t.id, 0) + 1
                    if isinstance(n, ast.Assign) and len(n.targets) == 1 and isinstance(n.targets[0], ast.Name):
                        vals[t.id] = n.value
    out = dict(env)
    for name, c in counts.items():
        v = vals.get(name)
        if c == 1 and v is not None and (isinstance(v, (ast.Name, ast.Attribute)) or
                                         (isinstance(v, ast.Constant) and isinstance(v.value, str))):
            if ast.unparse(v) != "sample":
                out[name] = _norm_key(v, env)
    return out


def _bind_call(call: ast.Call, callee: ast.FunctionDef, is_method: bool) -> dict[str, ast.AST | None]:
    """parameter name -> argument node (or the default node, or None)"""
    a = callee.args
    params = [p.arg for p in a.posonlyargs + a.args]
    if is_method and params and params[0] == "self":
        params = params[1:]
    defaults = dict(zip([p.arg for p in (a.posonlyargs + a.args)][::-1], a.defaults[::-1]))
    for p, d in zip(a.kwonlyargs, a.kw_defaults):
        if d is not None:
            defaults[p.arg] = d
    bound: dict[str, ast.AST | None] = {}
    for p, arg in zip(params, call.args):
        if isinstance(arg, ast.Starred):
            raise Untranslatable("starred argument in a followed call")
        bound[p] = arg
    for kw in call.keywords:
        if kw.arg is None:
            raise Untranslatable("`**kwargs` in a followed call")
        bound[kw.arg] = kw.value
    for p in params + [p.arg for p in a.kwonlyargs]:
        if p not in bound:
            bound[p] = defaults.get(p)
    return bound


def _accesses_in(fn: ast.FunctionDef, sample: str, env: dict[str, str], tree: ast.Module, cls: ast.ClassDef,
                 depth: int = 0) -> list[tuple[str, str]]:
    if depth > 3:
        raise Untranslatable("helper chain deeper than 3")
    env = _local_aliases(fn, env)
    mods, meths = module_functions(tree), methods(cls)
    rows: list[tuple[str, str]] = []
    # `for key in ("a", "b"): … sample[key] …`: the loop variable stands for each of the literal keys
    multi: dict[str, list[str]] = {}
    for n in ast.walk(fn):
        if isinstance(n, (ast.For, ast.comprehension)) and isinstance(n.target, ast.Name) and \
                isinstance(n.iter, (ast.Tuple, ast.List)) and n.iter.elts and \
                all(isinstance(e, (ast.Constant, ast.Attribute)) for e in n.iter.elts):
            multi[n.target.id] = [_norm_key(e, env) for e in n.iter.elts]

    def keys_of(node):
        if isinstance(node, ast.Name) and node.id in multi and node.id not in env:
            return multi[node.id]
        return [_norm_key(node, env)]

    for n in ast.walk(fn):
        if isinstance(n, ast.Subscript) and isinstance(n.value, ast.Name) and n.value.id == sample:
            mode = "write" if isinstance(n.ctx, (ast.Store, ast.Del)) else "read"
            rows.extend((mode, k_) for k_ in keys_of(n.slice))
        elif isinstance(n, ast.Compare) and len(n.ops) == 1 and isinstance(n.ops[0], (ast.In, ast.NotIn)) and \
                isinstance(n.comparators[0], ast.Name) and n.comparators[0].id == sample:
            rows.extend(("read", k_) for k_ in keys_of(n.left))
        elif isinstance(n, (ast.For, ast.comprehension)) and isinstance(n.iter, ast.Name) and n.iter.id == sample:
            rows.append(("read", "*"))
        elif isinstance(n, ast.Call):
            f = n.func
            if isinstance(f, ast.Attribute) and isinstance(f.value, ast.Name) and f.value.id == sample:
                if f.attr == "get" and n.args:
                    rows.append(("read", _norm_key(n.args[0], env)))
                elif f.attr in ("pop", "setdefault", "__setitem__", "__delitem__") and n.args:
                    rows.append(("write", _norm_key(n.args[0], env)))
                elif f.attr in ("update", "clear", "popitem"):
                    rows.append(("write", "*"))
                else:
                    rows.append(("read", "*"))
                continue
            passes = [a for a in n.args if isinstance(a, ast.Name) and a.id == sample] + \
                     [k.value for k in n.keywords if isinstance(k.value, ast.Name) and k.value.id == sample]
            splat = any(isinstance(a, ast.Starred) and ast.unparse(a.value) == sample for a in n.args) or \
                any(k.arg is None and ast.unparse(k.value) == sample for k in n.keywords)
            if not passes and not splat:
                continue
            callee, is_method = None, False
            if isinstance(f, ast.Name) and f.id in mods:
                callee = mods[f.id]
            elif isinstance(f, ast.Attribute) and isinstance(f.value, ast.Name) and f.value.id == "self" and f.attr in meths:
                callee, is_method = meths[f.attr], True
            if callee is None or splat:
                rows.append(("escape", ast.unparse(f)))
                continue
            bound = _bind_call(n, callee, is_method)
            sub_sample = [p for p, a in bound.items() if isinstance(a, ast.Name) and a.id == sample]
            if len(sub_sample) != 1:
                raise Untranslatable(f"cannot bind the sample in the call of `{callee.name}`")
            sub_env = {}
            for p, a in bound.items():
                if a is not None and p != sub_sample[0] and (isinstance(a, (ast.Name, ast.Attribute)) or
                                                             (isinstance(a, ast.Constant) and isinstance(a.value, str))):
                    sub_env[p] = _norm_key(a, env)
            rows.extend(_accesses_in(callee, sub_sample[0], sub_env, tree, cls, depth + 1))
    return rows


def key_accesses(tree: ast.Module, classes: list[str]) -> list[tuple[str, str, str]]:
    out = []
    for cname in classes:
        cls = class_def(tree, cname)
        fn = call_method(cls)
        params = [p.arg for p in fn.args.args if p.arg != "self"]
        if not params:
            raise Untranslatable(f"`{cname}.{fn.name}` takes no sample")
        for mode, key in _accesses_in(fn, params[0], {}, tree, cls):
            out.append((cname, mode, key))
    return sorted(set(out))


# --------------------------------------------------------------------------------------------------
HARMLESS_METHODS = {"clone", "contiguous", "detach", "float"}


class _Flow:
    """symbolic data flow: a value is (origin key text, [call names]) or None"""

    def __init__(self, tree: ast.Module, cls: ast.ClassDef):
        self.tree, self.cls = tree, cls
        self.mods, self.meths = module_functions(tree), methods(cls)
        self.stores: list[tuple[str, str, list[str]]] = []     # (written key, origin key, chain)
        self.returns = 0

    def run(self, fn: ast.FunctionDef, sample: str, env_keys: dict[str, str], env_vals: dict, env_funcs: dict, depth=0):
        if depth > 3:
            raise Untranslatable("helper chain deeper than 3")
        keys = _local_aliases(fn, env_keys)
        vals = dict(env_vals)
        funcs = dict(env_funcs)
        dict_lits: dict[str, ast.Dict] = {}
        self.returns += sum(isinstance(n, ast.Return) for n in ast.walk(fn)
                            if not any(n in ast.walk(d) for d in ast.walk(fn) if isinstance(d, (ast.FunctionDef, ast.Lambda)) and d is not fn))

        def ev(e: ast.AST):
            if isinstance(e, ast.Subscript) and isinstance(e.value, ast.Name) and e.value.id == sample:
                return (_norm_key(e.slice, keys), [])
            if isinstance(e, ast.Name):
                return vals.get(e.id)
            if isinstance(e, (ast.List, ast.Tuple)) and len(e.elts) == 1:
                return ev(e.elts[0])
            if isinstance(e, ast.Call):
                f = e.func
                # method on the flowing value
                if isinstance(f, ast.Attribute):
                    base = ev(f.value)
                    if base is not None:
                        return base if f.attr in HARMLESS_METHODS else (base[0], base[1] + [f.attr])
                carried = None
                for a in list(e.args) + [k.value for k in e.keywords if k.arg is not None]:
                    v = ev(a)
                    if v is not None:
                        carried = v
                        break
                if carried is None:
                    for k in e.keywords:            # f(**args) with args = {"data_list": [x], …}
                        if k.arg is None and isinstance(k.value, ast.Name) and k.value.id in dict_lits:
                            for dk, dv in zip(dict_lits[k.value.id].keys, dict_lits[k.value.id].values):
                                v = ev(dv)
                                if v is not None:
                                    carried = v
                                    break
                if carried is None:
                    return None
                # callee bound to a local function: inline its data flow
                target = None
                if isinstance(f, ast.Name) and f.id in funcs:
                    target = funcs[f.id]
                if target is not None:
                    return self.inline(target, carried, keys, funcs, depth)
                name = ast.unparse(f).split(".")[-1]
                return (carried[0], carried[1] + [name])
            return None

        for st in fn.body:
            if isinstance(st, ast.FunctionDef):
                funcs[st.name] = st
                continue
            if isinstance(st, ast.Assign) and len(st.targets) == 1:
                tgt = st.targets[0]
                if isinstance(tgt, ast.Name) and isinstance(st.value, ast.Dict):
                    dict_lits[tgt.id] = st.value
                    continue
                if isinstance(tgt, ast.Name) and isinstance(st.value, ast.Lambda):
                    funcs[tgt.id] = st.value
                    continue
                v = ev(st.value)
                if isinstance(tgt, ast.Name):
                    if v is not None:
                        vals[tgt.id] = v
                    else:
                        vals.pop(tgt.id, None)
                elif isinstance(tgt, ast.Subscript) and isinstance(tgt.value, ast.Name) and tgt.value.id == sample and v is not None:
                    self.stores.append((_norm_key(tgt.slice, keys), v[0], v[1]))
                continue
            call = None
            if isinstance(st, ast.Return) and isinstance(st.value, ast.Call):
                call = st.value
            elif isinstance(st, ast.Expr) and isinstance(st.value, ast.Call):
                call = st.value
            elif isinstance(st, ast.Assign) and isinstance(st.value, ast.Call):
                call = st.value
            if call is not None and any(isinstance(a, ast.Name) and a.id == sample
                                        for a in list(call.args) + [k.value for k in call.keywords]):
                f = call.func
                callee, is_method = None, False
                if isinstance(f, ast.Name) and f.id in self.mods:
                    callee = self.mods[f.id]
                elif isinstance(f, ast.Attribute) and isinstance(f.value, ast.Name) and f.value.id == "self" and f.attr in self.meths:
                    callee, is_method = self.meths[f.attr], True
                if callee is None:
                    raise Untranslatable(f"the sample is handed to `{ast.unparse(f)}`, which cannot be followed")
                bound = _bind_call(call, callee, is_method)
                sub_sample = [p for p, a in bound.items() if isinstance(a, ast.Name) and a.id == sample]
                if len(sub_sample) != 1:
                    raise Untranslatable(f"cannot bind the sample in the call of `{callee.name}`")
                sub_keys, sub_funcs = {}, {}
                for p, a in bound.items():
                    if a is None or p == sub_sample[0]:
                        continue
                    if isinstance(a, ast.Name) and a.id in funcs:
                        sub_funcs[p] = funcs[a.id]
                    elif isinstance(a, ast.Lambda):
                        sub_funcs[p] = a
                    elif isinstance(a, (ast.Name, ast.Attribute)) or (isinstance(a, ast.Constant) and isinstance(a.value, str)):
                        sub_keys[p] = _norm_key(a, keys)
                self.run(callee, sub_sample[0], sub_keys, {}, sub_funcs, depth + 1)

    def inline(self, target, carried, keys, funcs, depth):
        if depth > 3:
            raise Untranslatable("nested function chain deeper than 3")
        if isinstance(target, ast.Lambda):
            params = [p.arg for p in target.args.args]
            body_fn = ast.FunctionDef(name="<lambda>", args=target.args, body=[ast.Return(value=target.body)], decorator_list=[])
        else:
            params = [p.arg for p in target.args.args]
            body_fn = target
        if not params:
            raise Untranslatable("nested function without parameter")
        sub = _Flow(self.tree, self.cls)
        vals = {params[0]: carried}
        result = [None]
        lfuncs = dict(funcs)

        def ev_stmt_list(body):
            # straight-line part only: assignments and the return
            for st in body:
                if isinstance(st, ast.Assign) and len(st.targets) == 1 and isinstance(st.targets[0], ast.Name):
                    v = sub_eval(st.value)
                    if v is not None:
                        vals[st.targets[0].id] = v
                    else:
                        vals.pop(st.targets[0].id, None)
                elif isinstance(st, ast.Return):
                    result[0] = sub_eval(st.value) if st.value is not None else None
                    return
                elif isinstance(st, (ast.If, ast.For, ast.While, ast.Try, ast.With)):
                    raise Untranslatable("control flow inside an inlined image-domain function")

        def sub_eval(e):
            if isinstance(e, ast.Name):
                return vals.get(e.id)
            if isinstance(e, ast.Call):
                f = e.func
                if isinstance(f, ast.Attribute):
                    base = sub_eval(f.value)
                    if base is not None:
                        return base if f.attr in HARMLESS_METHODS else (base[0], base[1] + [f.attr])
                carried2 = None
                for a in list(e.args) + [k.value for k in e.keywords if k.arg is not None]:
                    v = sub_eval(a)
                    if v is not None:
                        carried2 = v
                        break
                if carried2 is None:
                    return None
                if isinstance(f, ast.Name) and f.id in lfuncs:
                    return self.inline(lfuncs[f.id], carried2, keys, lfuncs, depth + 1)
                return (carried2[0], carried2[1] + [ast.unparse(f).split(".")[-1]])
            return None

        ev_stmt_list(body_fn.body)
        if result[0] is None:
            raise Untranslatable("inlined image-domain function does not return the flowing tensor")
        return result[0]


def kspace_flow(tree: ast.Module, cname: str) -> dict:
    """{'plan': [call names], 'read': key text, 'write': key text, 'returns': n} for the k-space chain of the class"""
    cls = class_def(tree, cname)
    fn = call_method(cls)
    params = [p.arg for p in fn.args.args if p.arg != "self"]
    if not params:
        raise Untranslatable(f"`{cname}.{fn.name}` takes no sample")
    fl = _Flow(tree, cls)
    fl.run(fn, params[0], {}, {}, {})
    ks = [s for s in fl.stores if s[1] in KSPACE_KEYS and s[2]]
    if len(ks) != 1:
        raise Untranslatable(f"{cname}.{fn.name}: expected exactly one store of a transformed k-space, found {len(ks)}")
    w, r, plan = ks[0]
    n_ret = sum(isinstance(n, ast.Return) for n in ast.walk(fn))
    nested = sum(isinstance(n, ast.Return) for d in ast.walk(fn) if isinstance(d, ast.FunctionDef) and d is not fn
                 for n in ast.walk(d))
    return {"plan": plan, "read": r, "write": w, "returns": n_ret - nested}


# --------------------------------------------------------------------------------------------------
def crop_shape_rule(tree: ast.Module, aliases: dict[str, str] | None = None) -> list[tuple[str, str]]:
    """The if / elif / else chain of `CropKspace.__call__` assigning `crop_shape`, as (condition, value) rows in
    source order (conditions and values as normalised source text; the last condition is 'else')."""
    cls = class_def(tree, "CropKspace")
    fn = call_method(cls)
    top = None
    for st in fn.body:
        if isinstance(st, ast.If) and any(isinstance(t, ast.Name) and t.id == "crop_shape"
                                          for s in ast.walk(st) if isinstance(s, ast.Assign) for t in s.targets):
            top = st
            break
    if top is None:
        raise Untranslatable("`crop_shape = …` if-chain not found in CropKspace.__call__")
    rows: list[tuple[str, str]] = []

    def norm(e):
        return ast.unparse(e).replace('"', "'")

    def walk(st: ast.If, prefix: str):
        def value_of(body):
            for s_ in body:          # locals defined on the way (`crop = parse(self.crop) if … else self.crop`)
                if isinstance(s_, ast.Assign) and isinstance(s_.targets[0], ast.Name) and s_.targets[0].id != "crop_shape":
                    if aliases is None:
                        raise Untranslatable(f"local `{s_.targets[0].id}` defined inside the crop_shape chain")
                    aliases[s_.targets[0].id] = norm(s_.value)
            asg = [s for s in body if isinstance(s, ast.Assign) and ast.unparse(s.targets[0]) == "crop_shape"]
            other = [s for s in body if not isinstance(s, (ast.Assign, ast.Assert, ast.If, ast.Expr))]
            if other:
                raise Untranslatable("unexpected statement in the crop_shape chain")
            return asg
        cond = (prefix + " and " if prefix else "") + norm(st.test)
        a = value_of(st.body)
        inner = [s for s in st.body if isinstance(s, ast.If)]
        if a and not inner:
            rows.append((cond, norm(a[0].value)))
        elif inner and not a:
            for s in inner:
                walk(s, cond)
        else:
            raise Untranslatable("crop_shape chain: branch neither assigns nor nests")
        if not st.orelse:
            raise Untranslatable("crop_shape chain without else")
        if len(st.orelse) == 1 and isinstance(st.orelse[0], ast.If):
            walk(st.orelse[0], prefix)
        else:
            a = value_of(st.orelse)
            inner = [s for s in st.orelse if isinstance(s, ast.If)]
            if a and not inner:
                rows.append(((prefix + " and " if prefix else "") + "else", norm(a[0].value)))
            elif inner and not a:
                for s in inner:
                    walk(s, prefix)      # `else: if …` is an elif
            else:
                raise Untranslatable("crop_shape chain: else neither assigns nor nests")
    walk(top, "")
    return rows


# --------------------------------------------------------------------------------------------------
def inplace_on_inputs(fn: ast.FunctionDef, skip_params: tuple[str, ...] = ("self",)) -> list[tuple[str, str]]:
    """(function, what) for every operation that could modify an argument in place: torch-style `x.op_()` calls on
    anything, `out=` keywords, augmented assignments and item assignments whose base is a parameter (or a plain alias
    of one, `y = x`)."""
    params = {a.arg for a in fn.args.posonlyargs + fn.args.args + fn.args.kwonlyargs} - set(skip_params)
    alias = set(params)
    for n in ast.walk(fn):          # one round of plain aliases / views: y = x, y = x[...], y = x.view(...)
        if isinstance(n, ast.Assign) and len(n.targets) == 1 and isinstance(n.targets[0], ast.Name):
            v = n.value
            base = v
            while isinstance(base, (ast.Subscript, ast.Attribute)):
                base = base.value
            if isinstance(v, (ast.Name, ast.Subscript)) and isinstance(base, ast.Name) and base.id in params:
                alias.add(n.targets[0].id)
    rows = []
    for n in ast.walk(fn):
        if isinstance(n, ast.Call):
            f = n.func
            if isinstance(f, ast.Attribute) and f.attr.endswith("_") and not f.attr.startswith("_"):
                rows.append((fn.name, f"call .{f.attr}()"))
            if any(k.arg == "out" for k in n.keywords):
                rows.append((fn.name, f"out= in {ast.unparse(f)}"))
        if isinstance(n, ast.AugAssign):
            base = n.target
            while isinstance(base, (ast.Subscript, ast.Attribute)):
                base = base.value
            if isinstance(base, ast.Name) and base.id in alias and not isinstance(n.target, ast.Name):
                rows.append((fn.name, f"augmented assignment to {ast.unparse(n.target)}"))
            if isinstance(n.target, ast.Name) and n.target.id in alias:
                rows.append((fn.name, f"augmented assignment to parameter {n.target.id}"))
        if isinstance(n, (ast.Assign, ast.Delete)):
            for t in _targets(n):
                if isinstance(t, ast.Subscript):
                    base = t.value
                    while isinstance(base, (ast.Subscript, ast.Attribute)):
                        base = base.value
                    if isinstance(base, ast.Name) and base.id in alias:
                        rows.append((fn.name, f"item assignment to {ast.unparse(t.value)}"))
    return sorted(set(rows))


# --------------------------------------------------------------------------------------------------
PRIMS = {"center_crop", "complex_center_crop", "complex_random_crop", "pad_tensor", "crop_to_bbox", "crop_to_largest"}


def primitive_callers(repo, pkg: str = "direct") -> list[tuple[str, str, str]]:
    """(file, primitive, module it resolves to) for every call of a crop / pad primitive inside the package
    (definitions' own files included: `complex_center_crop` calling `crop_to_bbox`)."""
    import pathlib

    rows = []
    root = pathlib.Path(repo) / pkg
    for path in sorted(root.rglob("*.py")):
        try:
            src = path.read_text()
        except OSError:
            continue
        if not any(p in src for p in PRIMS):
            continue
        try:
            import warnings

            with warnings.catch_warnings():
                warnings.simplefilter("ignore")
                tree = ast.parse(src)
        except SyntaxError as e:
            raise Untranslatable(f"cannot parse {path}: {e}")
        rel = str(path.relative_to(repo))
        this_mod = rel[:-3].replace("/", ".")
        names: dict[str, str] = {}       # local name -> module it denotes (for `T.f`) or 'module:func' (for `f`)
        local_defs = {n.name for n in tree.body if isinstance(n, ast.FunctionDef)}
        for n in ast.walk(tree):
            if isinstance(n, ast.ImportFrom) and n.module:
                for a in n.names:
                    if a.name in PRIMS:
                        names[a.asname or a.name] = f"{n.module}:{a.name}"
                    else:
                        names.setdefault(a.asname or a.name, f"{n.module}.{a.name}")
            elif isinstance(n, ast.Import):
                for a in n.names:
                    if a.asname:
                        names[a.asname] = a.name
        for n in ast.walk(tree):          # every reference (call, `functools.partial(T.f, …)`, `self.crop_func = T.f`)
            if isinstance(n, ast.Name) and isinstance(n.ctx, ast.Load):
                if n.id in names and ":" in names[n.id]:
                    mod, fn = names[n.id].split(":")
                    rows.append((rel, fn, mod))
                elif n.id in PRIMS and n.id in local_defs:
                    rows.append((rel, n.id, this_mod))
            elif isinstance(n, ast.Attribute) and n.attr in PRIMS and isinstance(n.value, ast.Name) and isinstance(n.ctx, ast.Load):
                rows.append((rel, n.attr, names.get(n.value.id, f"?{n.value.id}")))
    return sorted(set(rows))


# --------------------------------------------------------------------------------------------------
def bbox_patch_alloc(fn: ast.FunctionDef) -> list[tuple[str, str]]:
    """How `crop_to_bbox` allocates the padded patch, one row per assignment to `patch`: (constructor, kind) with kind
    `full` (`X.full(size, pad_value, dtype=data.dtype)`), `scaledOnes` (`pad_value * X.ones(size, dtype=data.dtype)`) or
    `noDtype` (an allocation that does not pass `dtype=data.dtype`)."""
    rows = []
    for n in ast.walk(fn):
        if isinstance(n, ast.Assign) and len(n.targets) == 1 and isinstance(n.targets[0], ast.Name) and n.targets[0].id == "patch":
            v = n.value
            scaled = False
            if isinstance(v, ast.BinOp) and isinstance(v.op, ast.Mult):
                calls = [x for x in (v.left, v.right) if isinstance(x, ast.Call)]
                if len(calls) != 1:
                    raise Untranslatable(f"unexpected patch allocation `{ast.unparse(v)[:80]}`")
                v, scaled = calls[0], True
            if not isinstance(v, ast.Call):
                raise Untranslatable(f"unexpected patch allocation `{ast.unparse(v)[:80]}`")
            ctor = ast.unparse(v.func)
            has_dtype = any(k.arg == "dtype" and ast.unparse(k.value) == "data.dtype" for k in v.keywords)
            short = ctor.split(".")[-1]
            if not has_dtype:
                kind = "noDtype"
            elif scaled and short in ("ones", "ones_like"):
                kind = "scaledOnes"
            elif not scaled and short == "full" and any(ast.unparse(a) == "pad_value" for a in v.args[1:2] + [k.value for k in v.keywords
                                                                                                          if k.arg == "fill_value"]):
                kind = "full"
            else:
                raise Untranslatable(f"unexpected patch allocation `{ast.unparse(n.value)[:80]}`")
            rows.append((ctor, kind))
    if not rows:
        raise Untranslatable("no assignment to `patch` in crop_to_bbox")
    return rows


# --------------------------------------------------------------------------------------------------
def primitive_edges(repo) -> list[tuple[str, str]]:
    """(caller, primitive) call edges: which crop / pad primitive each composite function / module is built on.
    Private module-level helpers (`_name`) the caller uses are followed; for classes the whole body counts
    (`self.crop_func = T.complex_center_crop` lives in `__init__`)."""
    import pathlib
    import warnings

    def parse(rel):
        with warnings.catch_warnings():
            warnings.simplefilter("ignore")
            return ast.parse((pathlib.Path(repo) / rel).read_text())

    def refs(node, mods, seen):
        out = set()
        for n in ast.walk(node):
            name = n.id if isinstance(n, ast.Name) else n.attr if isinstance(n, ast.Attribute) else None
            if name in PRIMS and isinstance(getattr(n, "ctx", None), ast.Load):
                out.add(name)
            if isinstance(n, ast.Name) and n.id.startswith("_") and n.id in mods and n.id not in seen:
                seen.add(n.id)
                out |= refs(mods[n.id], mods, seen)
        return out

    rows = []
    try:
        for rel, names in (("direct/data/transforms.py", ["complex_center_crop", "complex_random_crop"]),
                           ("direct/data/bbox.py", ["crop_to_largest"])):
            tree = parse(rel)
            mods = module_functions(tree)
            for nm in names:
                if nm not in mods:
                    raise Untranslatable(f"`{nm}` not found in {rel}")
                rows += [(nm, r) for r in sorted(refs(mods[nm], mods, {nm}) - {nm})]
        tree = parse("direct/data/mri_transforms.py")
        mods = module_functions(tree)
        for cname in ("CropKspace", "PadKspace"):
            rows += [(cname, r) for r in sorted(refs(class_def(tree, cname), mods, set()))]
    except (OSError, SyntaxError) as e:
        raise Untranslatable(f"cannot read the sources: {e}")
    return rows
