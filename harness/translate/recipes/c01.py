"""Per-property translation recipes (see gen.py)."""
from __future__ import annotations

import ast

from ..gen import (EXTRA, Kernel, Untranslatable, all_stmts, assign_value, find_assign, find_for,
                  guard_condition, register, straightline)
from ..pyexpr import ExprTr, emit_def, translate_block

T = "direct/data/transforms.py"
CROP = ("DirectVerif.Model.Crop",)
SHIFT = ("DirectVerif.Model.Shift", "DirectVerif.Model.Fft")

# =================================================================================================
# C01 (shift arithmetic)
register("C01", [
    Kernel("fftshift_amount", T, "fftshift", ["n"], "Shift.fftshiftAmount",
           assign_value({"data.shape[dim_num]": "n"}, "shift[idx]"), imports=SHIFT),
    Kernel("ifftshift_amount", T, "ifftshift", ["n"], "Shift.ifftshiftAmount",
           assign_value({"data.shape[dim_num]": "n"}, "shift[i]"), imports=SHIFT),
    Kernel("roll_one_dim_shift", T, "roll_one_dim", ["shift", "n"], "(fun shift n => Int.fmod shift n)",
           straightline({"shift": "shift", "data.size(dim)": "n"}, "shift"), imports=SHIFT),
    Kernel("roll_left_start", T, "roll_one_dim", ["shift", "n"], "(fun _ _ => 0)",
           assign_value({"shift": "shift", "data.size(dim)": "n"}, "left", arg=1), imports=SHIFT),
    Kernel("roll_left_len", T, "roll_one_dim", ["shift", "n"], "(fun shift n => n - shift)",
           assign_value({"shift": "shift", "data.size(dim)": "n"}, "left", arg=2), imports=SHIFT),
    Kernel("roll_right_start", T, "roll_one_dim", ["shift", "n"], "(fun shift n => n - shift)",
           assign_value({"shift": "shift", "data.size(dim)": "n"}, "right", arg=1), imports=SHIFT),
    Kernel("roll_right_len", T, "roll_one_dim", ["shift", "n"], "(fun shift _ => shift)",
           assign_value({"shift": "shift", "data.size(dim)": "n"}, "right", arg=2), imports=SHIFT),
])


# =================================================================================================
# C01 structural facts: the call sequence of fft2 / ifft2, the per-element `dim` test, the order of
# the two pieces in roll_one_dim's `torch.cat`.
_NORMS = {"'ortho'": ".ortho", "None": ".backward", "'backward'": ".backward", "'forward'": ".forward"}


def _is_docstring(st):
    return isinstance(st, ast.Expr) and isinstance(st.value, ast.Constant) and isinstance(st.value.value, str)


def _raise_name(st):
    if not isinstance(st, ast.Raise) or st.exc is None:
        return None
    exc = st.exc.func if isinstance(st.exc, ast.Call) else st.exc
    return ast.unparse(exc)


def _data_call(st, allowed):
    """`data = f(data, ...)` with f in allowed -> (f, call) else None"""
    if (isinstance(st, ast.Assign) and len(st.targets) == 1 and ast.unparse(st.targets[0]) == "data"
            and isinstance(st.value, ast.Call) and ast.unparse(st.value.func) in allowed
            and st.value.args and ast.unparse(st.value.args[0]) == "data"):
        return ast.unparse(st.value.func), st.value
    return None


def _kw(call, name):
    for k in call.keywords:
        if k.arg == name:
            return k.value
    return None


def _shift_or_view(st):
    r = _data_call(st, ("ifftshift", "fftshift", "view_as_real", "view_as_complex"))
    if r is None:
        raise Untranslatable(f"unexpected statement `{ast.unparse(st)}`")
    f, call = r
    if f in ("ifftshift", "fftshift"):
        d = _kw(call, "dim") if len(call.args) == 1 else (call.args[1] if len(call.args) == 2 else None)
        if d is None or ast.unparse(d) != "dim":
            raise Untranslatable(f"`{f}` is not applied over `dim`: `{ast.unparse(st)}`")
        return ".ishift" if f == "ifftshift" else ".fshift"
    if len(call.args) != 1 or call.keywords:
        raise Untranslatable(f"unexpected arguments in `{ast.unparse(st)}`")
    return ".viewReal" if f == "view_as_real" else ".viewComplex"


def _guarded_ops(body):
    """statements under `if centered:` / `if complex_input:` (or at top level) -> list of ops"""
    ops = []
    i = 0
    while i < len(body):
        st = body[i]
        if isinstance(st, ast.Expr) and isinstance(st.value, ast.Call) and ast.unparse(st.value.func) == "assert_complex":
            txt = ast.unparse(st.value).replace(" ", "")
            if txt != "assert_complex(data,complex_last=True)" or i + 1 >= len(body):
                raise Untranslatable(f"unexpected `{ast.unparse(st)}`")
            if _shift_or_view(body[i + 1]) != ".viewComplex":
                raise Untranslatable("assert_complex not followed by view_as_complex")
            ops.append(".viewComplex")
            i += 2
            continue
        op = _shift_or_view(st)
        if op == ".viewComplex":
            raise Untranslatable("view_as_complex without the preceding assert_complex")
        ops.append(op)
        i += 1
    return ops


def _transform(st: ast.If):
    if len(st.body) != 1 or len(st.orelse) != 1 or _raise_name(st.orelse[0]) != "ValueError":
        raise Untranslatable("unexpected shape of the `verify_fft_dtype_possible` branch")
    r = _data_call(st.body[0], ("torch.fft.fftn", "torch.fft.ifftn"))
    if r is None:
        raise Untranslatable(f"unexpected statement `{ast.unparse(st.body[0])}`")
    f, call = r
    d = _kw(call, "dim")
    if d is None or ast.unparse(d) != "dim" or len(call.args) != 1:
        raise Untranslatable("transform is not over `dim`")
    nm = _kw(call, "norm")
    if nm is None:
        nt = nf = ".backward"
    elif isinstance(nm, ast.IfExp) and ast.unparse(nm.test) == "normalized":
        a, b = ast.unparse(nm.body), ast.unparse(nm.orelse)
        if a not in _NORMS or b not in _NORMS:
            raise Untranslatable(f"unknown norm `{ast.unparse(nm)}`")
        nt, nf = _NORMS[a], _NORMS[b]
    elif isinstance(nm, ast.IfExp) and ast.unparse(nm.test) == "not normalized":
        a, b = ast.unparse(nm.body), ast.unparse(nm.orelse)
        if a not in _NORMS or b not in _NORMS:
            raise Untranslatable(f"unknown norm `{ast.unparse(nm)}`")
        nt, nf = _NORMS[b], _NORMS[a]
    elif ast.unparse(nm) in _NORMS:
        nt = nf = _NORMS[ast.unparse(nm)]
    else:
        raise Untranslatable(f"unknown norm `{ast.unparse(nm)}`")
    inv = "true" if f.endswith("ifftn") else "false"
    return f"(.transform {inv} {nt} {nf})"


def _plan_of(fn: ast.FunctionDef):
    """-> (steps [(guard, op)], per-element dim test node)"""
    steps = []
    dim_test = None
    for st in fn.body:
        if _is_docstring(st):
            continue
        if isinstance(st, ast.Return):
            if ast.unparse(st.value) != "data":
                raise Untranslatable(f"unexpected `{ast.unparse(st)}`")
            return steps, dim_test
        if isinstance(st, ast.If):
            test = ast.unparse(st.test)
            if st.body and all(isinstance(b, ast.Raise) for b in st.body) and not st.orelse:
                t = st.test
                if not (_raise_name(st.body[0]) == "TypeError" and isinstance(t, ast.UnaryOp) and isinstance(t.op, ast.Not)
                        and isinstance(t.operand, ast.Call) and ast.unparse(t.operand.func) == "all"
                        and len(t.operand.args) == 1 and isinstance(t.operand.args[0], ast.GeneratorExp)):
                    raise Untranslatable(f"unexpected guard `{test}`")
                g = t.operand.args[0]
                if (len(g.generators) != 1 or ast.unparse(g.generators[0].iter) != "dim" or g.generators[0].ifs
                        or not isinstance(g.generators[0].target, ast.Name)):
                    raise Untranslatable(f"unexpected guard `{test}`")
                dim_test = (g.generators[0].target.id, g.elt)
                steps.append((".always", ".checkDims"))
            elif test in ("centered", "complex_input"):
                if st.orelse:
                    raise Untranslatable(f"`if {test}` has an else branch")
                for op in _guarded_ops(st.body):
                    steps.append((".centered" if test == "centered" else ".complexInput", op))
            elif test.replace(" ", "") == "verify_fft_dtype_possible(data,dim)":
                steps.append((".always", _transform(st)))
            else:
                raise Untranslatable(f"unexpected condition `{test}`")
            continue
        for op in _guarded_ops([st]):
            steps.append((".always", op))
    raise Untranslatable("no `return data`")


def _c01_extra():
    from ..gen import REPO, find_function, parse_file

    out, status = [], {}
    try:
        tree = parse_file(REPO / T)
    except Untranslatable as e:
        tree = None
        err = e
    for name, model in (("fft2", "Fft.fft2Plan"), ("ifft2", "Fft.ifft2Plan")):
        kp, kd = f"{name}_plan", f"{name}_dim_ok"
        try:
            if tree is None:
                raise err
            steps, dim_test = _plan_of(find_function(tree, name))
            body = ", ".join(f"⟨{g}, {o}⟩" for g, o in steps)
            out.append(f"/-- translated from `{T}`:`{name}` (ordered, flag-guarded call sequence) -/\n"
                       f"def {kp} : List Fft.Step := [{body}]\n")
            status[kp] = "translated"
        except Untranslatable as e:
            out.append(f"/-- SKIPPED ({e}) -/\ndef {kp} : List Fft.Step := {model}\n")
            status[kp] = f"skipped: {e}"
            dim_test = None
        try:
            if dim_test is None:
                raise Untranslatable("dim guard not found")
            var, elt = dim_test
            tr = ExprTr({var: "d"}, {f"isinstance({var}, int)": "true"})
            out.append(f"/-- translated from `{T}`:`{name}` (per-element test of `dim`) -/\n"
                       + emit_def(kd, ["d"], [], tr.bool(elt), "Bool"))
            status[kd] = "translated"
        except Untranslatable as e:
            out.append(f"/-- SKIPPED ({e}) -/\ndef {kd} (d : Int) : Bool := Fft.dimOk d\n")
            status[kd] = f"skipped: {e}"
    # order of the pieces in roll_one_dim's cat: 0 = left, 1 = right
    try:
        if tree is None:
            raise err
        fn = find_function(tree, "roll_one_dim")
        ret = [s for s in fn.body if isinstance(s, ast.Return)]
        last = ret[-1].value if ret else None
        if not (isinstance(last, ast.Call) and ast.unparse(last.func) == "torch.cat" and last.args
                and isinstance(last.args[0], (ast.Tuple, ast.List))):
            raise Untranslatable("`return torch.cat((…), dim=dim)` not found")
        d = _kw(last, "dim") if len(last.args) == 1 else last.args[1]
        if d is None or ast.unparse(d) != "dim":
            raise Untranslatable("cat is not along `dim`")
        names = [ast.unparse(e) for e in last.args[0].elts]
        if not all(n in ("left", "right") for n in names):
            raise Untranslatable(f"unexpected cat operands {names}")
        # the two pieces must be narrows of `data` along `dim`
        for piece in ("left", "right"):
            v = find_assign(fn, piece).value
            if not (isinstance(v, ast.Call) and ast.unparse(v.func) == "data.narrow" and len(v.args) == 3
                    and ast.unparse(v.args[0]) == "dim"):
                raise Untranslatable(f"`{piece}` is not `data.narrow(dim, …)`")
        out.append(f"/-- translated from `{T}`:`roll_one_dim` (operands of `torch.cat`: 0 = left, 1 = right) -/\n"
                   f"def roll_cat_order : List Nat := [{', '.join('0' if n == 'left' else '1' for n in names)}]\n")
        status["roll_cat_order"] = "translated"
    except Untranslatable as e:
        out.append(f"/-- SKIPPED ({e}) -/\ndef roll_cat_order : List Nat := [1, 0]\n")
        status["roll_cat_order"] = f"skipped: {e}"
    # dtype validation: verify_fft_dtype_possible and is_power_of_two
    try:
        if tree is None:
            raise err
        out.append(f"/-- translated from `{T}`:`verify_fft_dtype_possible` -/\n" + _verify_dtype(find_function(tree, "verify_fft_dtype_possible")))
        status["verify_fft_dtype_possible"] = "translated"
    except Untranslatable as e:
        out.append(f"/-- SKIPPED ({e}) -/\ndef verify_fft_dtype_possible (is_complex64_dtype is_float32_dtype all_pow2 : Bool) : Bool :=\n"
                   "  is_complex64_dtype || (is_float32_dtype && all_pow2)\n")
        status["verify_fft_dtype_possible"] = f"skipped: {e}"
    try:
        fn = find_function(parse_file(REPO / "direct/utils/__init__.py"), "is_power_of_two")
        out.append("/-- translated from `direct/utils/__init__.py`:`is_power_of_two` -/\n" + _is_pow2(fn))
        status["is_power_of_two"] = "translated"
    except Untranslatable as e:
        out.append(f"/-- SKIPPED ({e}) -/\ndef is_power_of_two (number : Nat) : Bool := Fft.isPow2 number\n")
        status["is_power_of_two"] = f"skipped: {e}"
    return "\n".join(out), status


def _verify_dtype(fn: ast.FunctionDef) -> str:
    env: dict[str, str] = {}

    def b(n) -> str:
        if isinstance(n, ast.Name) and n.id in env:
            return env[n.id]
        if isinstance(n, ast.Constant) and isinstance(n.value, bool):
            return "true" if n.value else "false"
        if isinstance(n, ast.BoolOp):
            op = " && " if isinstance(n.op, ast.And) else " || "
            return "(" + op.join(b(v) for v in n.values) + ")"
        if isinstance(n, ast.UnaryOp) and isinstance(n.op, ast.Not):
            return f"(!{b(n.operand)})"
        txt = ast.unparse(n).replace(" ", "")
        if txt == "data.dtype==torch.complex64":
            return "is_complex64_dtype"
        if txt == "data.dtype==torch.float32":
            return "is_float32_dtype"
        if txt in ("all((is_power_of_two(_)for_in[data.size(idx)foridxindims]))", "all(is_power_of_two(_)for_in[data.size(idx)foridxindims])",
                   "all((is_power_of_two(data.size(idx))foridxindims))", "all(is_power_of_two(data.size(idx))foridxindims)"):
            return "all_pow2"
        raise Untranslatable(f"boolean expression `{ast.unparse(n)}`")

    ret = None
    for st in fn.body:
        if _is_docstring(st):
            continue
        if isinstance(st, ast.Assign) and len(st.targets) == 1 and isinstance(st.targets[0], ast.Name):
            env[st.targets[0].id] = b(st.value)
        elif isinstance(st, ast.Return):
            ret = b(st.value)
        else:
            raise Untranslatable(f"unexpected statement `{ast.unparse(st)[:50]}`")
    if ret is None:
        raise Untranslatable("no return")
    return f"def verify_fft_dtype_possible (is_complex64_dtype is_float32_dtype all_pow2 : Bool) : Bool :=\n  {ret}\n"


def _is_pow2(fn: ast.FunctionDef) -> str:
    body = [s for s in fn.body if not _is_docstring(s)]
    if len(body) != 1 or not isinstance(body[0], ast.Return):
        raise Untranslatable("unexpected body of is_power_of_two")
    arg = fn.args.args[0].arg

    def e(n) -> str:
        if isinstance(n, ast.Name) and n.id == arg:
            return "number"
        if isinstance(n, ast.Constant) and isinstance(n.value, int) and not isinstance(n.value, bool) and n.value >= 0:
            return str(n.value)
        if isinstance(n, ast.BinOp) and isinstance(n.op, ast.BitAnd):
            return f"({e(n.left)} &&& {e(n.right)})"
        if isinstance(n, ast.BinOp) and isinstance(n.op, ast.Sub):
            return f"({e(n.left)} - {e(n.right)})"
        raise Untranslatable(f"expression `{ast.unparse(n)}`")

    def b(n) -> str:
        if isinstance(n, ast.BoolOp):
            op = " && " if isinstance(n.op, ast.And) else " || "
            return "(" + op.join(b(v) for v in n.values) + ")"
        if isinstance(n, ast.Compare) and len(n.ops) == 1 and isinstance(n.ops[0], (ast.Eq, ast.NotEq)):
            return f"({e(n.left)} {'==' if isinstance(n.ops[0], ast.Eq) else '!='} {e(n.comparators[0])})"
        raise Untranslatable(f"boolean expression `{ast.unparse(n)}`")
    return f"def is_power_of_two (number : Nat) : Bool :=\n  {b(body[0].value)}\n"


EXTRA["C01"] = _c01_extra
