"""Per-property translation recipes (see gen.py)."""
from __future__ import annotations

import ast

from ..gen import (EXTRA, Kernel, Untranslatable, all_stmts, assign_value, find_assign, find_for,
                  guard_condition, register, straightline)
from ..pyexpr import ExprTr, emit_def, parse_file, translate_block

T = "direct/data/transforms.py"
CROP = ("DirectVerif.Model.Crop",)
SHIFT = ("DirectVerif.Model.Shift", "DirectVerif.Model.Fft")

# =================================================================================================
# C01 (shift arithmetic)
register("C01", [
    Kernel("fftshift_amount", T, "fftshift", ["n"], "Shift.fftshiftAmount",
           assign_value({"data.shape[dim_num]": "n"}, "shift[idx]"), imports=SHIFT),
    Kernel("ifftshift_amount", T, "ifftshift", ["n"], "Shift.ifftshiftAmount",
           assign_value({"data.shape[dim_num]": "n"}, "shift[i]"), imports=SHIFT),
    Kernel("roll_one_dim_shift", T, "roll_one_dim", ["shift", "n"], "(fun shift n => Int.fmod shift n)",
           straightline({"shift": "shift", "data.size(dim)": "n"}, "shift"), imports=SHIFT),
    Kernel("roll_left_start", T, "roll_one_dim", ["shift", "n"], "(fun _ _ => 0)",
           assign_value({"shift": "shift", "data.size(dim)": "n"}, "left", arg=1), imports=SHIFT),
    Kernel("roll_left_len", T, "roll_one_dim", ["shift", "n"], "(fun shift n => n - shift)",
           assign_value({"shift": "shift", "data.size(dim)": "n"}, "left", arg=2), imports=SHIFT),
    Kernel("roll_right_start", T, "roll_one_dim", ["shift", "n"], "(fun shift n => n - shift)",
           assign_value({"shift": "shift", "data.size(dim)": "n"}, "right", arg=1), imports=SHIFT),
    Kernel("roll_right_len", T, "roll_one_dim", ["shift", "n"], "(fun shift _ => shift)",
           assign_value({"shift": "shift", "data.size(dim)": "n"}, "right", arg=2), imports=SHIFT),
])


# =================================================================================================
# C01 structural facts: the call sequence of fft2 / ifft2, the per-element `dim` test, the order of
# the two pieces in roll_one_dim's `torch.cat`.
_NORMS = {"'ortho'": ".ortho", "None": ".backward", "'backward'": ".backward", "'forward'": ".forward"}


def _is_docstring(st):
    return isinstance(st, ast.Expr) and isinstance(st.value, ast.Constant) and isinstance(st.value.value, str)


def _raise_name(st):
    if not isinstance(st, ast.Raise) or st.exc is None:
        return None
    exc = st.exc.func if isinstance(st.exc, ast.Call) else st.exc
    return ast.unparse(exc)


def _data_call(st, allowed):
    """`data = f(data, ...)` with f in allowed -> (f, call) else None"""
    if (isinstance(st, ast.Assign) and len(st.targets) == 1 and ast.unparse(st.targets[0]) == "data"
            and isinstance(st.value, ast.Call) and ast.unparse(st.value.func) in allowed
            and st.value.args and ast.unparse(st.value.args[0]) == "data"):
        return ast.unparse(st.value.func), st.value
    return None


def _kw(call, name):
    for k in call.keywords:
        if k.arg == name:
            return k.value
    return None


def _shift_or_view(st):
    r = _data_call(st, ("ifftshift", "fftshift", "view_as_real", "view_as_complex"))
    if r is None:
        raise Untranslatable(f"unexpected statement `{ast.unparse(st)}`")
    f, call = r
    if f in ("ifftshift", "fftshift"):
        d = _kw(call, "dim") if len(call.args) == 1 else (call.args[1] if len(call.args) == 2 else None)
        if d is None or ast.unparse(d) != "dim":
            raise Untranslatable(f"`{f}` is not applied over `dim`: `{ast.unparse(st)}`")
        return ".ishift" if f == "ifftshift" else ".fshift"
    if len(call.args) != 1 or call.keywords:
        raise Untranslatable(f"unexpected arguments in `{ast.unparse(st)}`")
    return ".viewReal" if f == "view_as_real" else ".viewComplex"


def _guarded_ops(body):
    """statements under `if centered:` / `if complex_input:` (or at top level) -> list of ops"""
    ops = []
    i = 0
    while i < len(body):
        st = body[i]
        if isinstance(st, ast.Expr) and isinstance(st.value, ast.Call) and ast.unparse(st.value.func) == "assert_complex":
            txt = ast.unparse(st.value).replace(" ", "")
            if txt != "assert_complex(data,complex_last=True)" or i + 1 >= len(body):
                raise Untranslatable(f"unexpected `{ast.unparse(st)}`")
            if _shift_or_view(body[i + 1]) != ".viewComplex":
                raise Untranslatable("assert_complex not followed by view_as_complex")
            ops.append(".viewComplex")
            i += 2
            continue
        op = _shift_or_view(st)
        if op == ".viewComplex":
            raise Untranslatable("view_as_complex without the preceding assert_complex")
        ops.append(op)
        i += 1
    return ops


def _transform(st: ast.If, env=None, module=None):
    if len(st.body) != 1 or len(st.orelse) != 1 or _raise_name(st.orelse[0]) != "ValueError":
        raise Untranslatable("unexpected shape of the `verify_fft_dtype_possible` branch")
    return _transform_call(st.body[0], env or {}, module)


def _dim_guard(st):
    """`if not all(<elt> for v in <iter>): raise TypeError` -> (iter text, v, elt) else None"""
    if not (isinstance(st, ast.If) and st.body and all(isinstance(b, ast.Raise) for b in st.body) and not st.orelse):
        return None
    t = st.test
    if not (_raise_name(st.body[0]) == "TypeError" and isinstance(t, ast.UnaryOp) and isinstance(t.op, ast.Not)
            and isinstance(t.operand, ast.Call) and ast.unparse(t.operand.func) == "all"
            and len(t.operand.args) == 1 and isinstance(t.operand.args[0], ast.GeneratorExp)):
        return None
    g = t.operand.args[0]
    if len(g.generators) != 1 or g.generators[0].ifs or not isinstance(g.generators[0].target, ast.Name):
        return None
    return ast.unparse(g.generators[0].iter), g.generators[0].target.id, g.elt


def _norm_pair(nm, env, module):
    """norm expression -> (lean norm when normalized, lean norm otherwise)"""
    if nm is None:
        return ".backward", ".backward"
    if isinstance(nm, ast.Name) and nm.id in env:
        return _norm_pair(env[nm.id], env, module)
    if isinstance(nm, ast.IfExp) and ast.unparse(nm.test) in ("normalized", "bool(normalized)", "not normalized"):
        a, b = ast.unparse(nm.body).replace('"', "'"), ast.unparse(nm.orelse).replace('"', "'")
        if a not in _NORMS or b not in _NORMS:
            raise Untranslatable(f"unknown norm `{ast.unparse(nm)}`")
        return (_NORMS[b], _NORMS[a]) if ast.unparse(nm.test) == "not normalized" else (_NORMS[a], _NORMS[b])
    if isinstance(nm, ast.Subscript) and ast.unparse(nm.slice) in ("normalized", "bool(normalized)", "int(normalized)"):
        # table dispatch `(None, "ortho")[bool(normalized)]`, the table possibly a module-level constant
        tbl = nm.value
        if isinstance(tbl, ast.Name) and module is not None:
            for d in module.body:
                if isinstance(d, ast.Assign) and len(d.targets) == 1 and ast.unparse(d.targets[0]) == tbl.id:
                    tbl = d.value
        if isinstance(tbl, (ast.Tuple, ast.List)) and len(tbl.elts) == 2:
            a, b = (ast.unparse(e).replace('"', "'") for e in tbl.elts)
            if a in _NORMS and b in _NORMS:
                return _NORMS[b], _NORMS[a]
    txt = ast.unparse(nm).replace('"', "'")
    if txt in _NORMS:
        return _NORMS[txt], _NORMS[txt]
    raise Untranslatable(f"unknown norm `{ast.unparse(nm)}`")


def _transform_call(st, env, module):
    r = _data_call(st, ("torch.fft.fftn", "torch.fft.ifftn"))
    if r is None:
        raise Untranslatable(f"unexpected statement `{ast.unparse(st)}`")
    f, call = r
    d = _kw(call, "dim")
    if d is None or ast.unparse(d) != "dim" or len(call.args) != 1:
        raise Untranslatable("transform is not over `dim`")
    nt, nf = _norm_pair(_kw(call, "norm"), env, module)
    return f"(.transform {'true' if f.endswith('ifftn') else 'false'} {nt} {nf})"


def _plan_of(fn: ast.FunctionDef, module: ast.Module = None):
    """-> (steps [(guard, op)], per-element dim test node).  Understands the statement forms that mean the same thing: the dim
    check inline or in a private helper of the module; `if ok: transform else: raise` or the guard clause `if not ok: raise`
    followed by the transform; the norm inline, hoisted into a local, or dispatched through a two-entry table; the trailing
    `if complex_input: data = view_as_real(data); return data` or `return view_as_real(data) if complex_input else data`."""
    steps = []
    dim_test = None
    env = {}                   # hoisted locals (only `norm = …` style bindings that the transform call reads)
    guarded = False            # a guard clause `if not verify_fft_dtype_possible(data, dim): raise ValueError` was seen
    defs = {d.name: d for d in module.body if isinstance(d, ast.FunctionDef)} if module is not None else {}
    for st in fn.body:
        if _is_docstring(st):
            continue
        if isinstance(st, ast.Return):
            v = st.value
            if isinstance(v, ast.IfExp) and ast.unparse(v.test) == "complex_input" and ast.unparse(v.orelse) == "data" \
                    and ast.unparse(v.body).replace(" ", "") == "view_as_real(data)":
                steps.append((".complexInput", ".viewReal"))
                return steps, dim_test
            if ast.unparse(v) != "data":
                raise Untranslatable(f"unexpected `{ast.unparse(st)}`")
            return steps, dim_test
        # the dim check extracted into a helper: `_check(dim, …)` whose body is the guard over its first parameter
        if isinstance(st, ast.Expr) and isinstance(st.value, ast.Call) and isinstance(st.value.func, ast.Name) \
                and st.value.func.id in defs and st.value.args and ast.unparse(st.value.args[0]) == "dim":
            h = defs[st.value.func.id]
            hb = [b for b in h.body if not _is_docstring(b)]
            g = _dim_guard(hb[0]) if len(hb) == 1 else None
            if g is None or not h.args.args or g[0] != h.args.args[0].arg:
                raise Untranslatable(f"helper `{h.name}` is not the dim check")
            dim_test = (g[1], g[2])
            steps.append((".always", ".checkDims"))
            continue
        if isinstance(st, ast.Assign) and len(st.targets) == 1 and isinstance(st.targets[0], ast.Name) \
                and st.targets[0].id not in ("data", "dim") and st.targets[0].id.startswith("norm"):
            env[st.targets[0].id] = st.value
            continue
        if guarded and _data_call(st, ("torch.fft.fftn", "torch.fft.ifftn")) is not None:
            steps.append((".always", _transform_call(st, env, module)))
            guarded = False
            continue
        if isinstance(st, ast.If) and not st.orelse and ast.unparse(st.test).replace(" ", "") == "notverify_fft_dtype_possible(data,dim)":
            if not (len(st.body) == 1 and _raise_name(st.body[0]) == "ValueError") or guarded:
                raise Untranslatable("unexpected shape of the dtype guard clause")
            guarded = True
            continue
        if guarded:
            raise Untranslatable("statement between the dtype guard clause and the transform")
        if isinstance(st, ast.If):
            test = ast.unparse(st.test)
            if st.body and all(isinstance(b, ast.Raise) for b in st.body) and not st.orelse:
                g = _dim_guard(st)
                if g is None or g[0] != "dim":
                    raise Untranslatable(f"unexpected guard `{test}`")
                dim_test = (g[1], g[2])
                steps.append((".always", ".checkDims"))
            elif test in ("centered", "complex_input"):
                if st.orelse:
                    raise Untranslatable(f"`if {test}` has an else branch")
                for op in _guarded_ops(st.body):
                    steps.append((".centered" if test == "centered" else ".complexInput", op))
            elif test.replace(" ", "") == "verify_fft_dtype_possible(data,dim)":
                steps.append((".always", _transform(st, env, module)))
            else:
                raise Untranslatable(f"unexpected condition `{test}`")
            continue
        for op in _guarded_ops([st]):
            steps.append((".always", op))
    raise Untranslatable("no `return data`")


def _c01_extra():
    from ..gen import REPO, find_function, parse_file

    out, status = [], {}
    try:
        tree = parse_file(REPO / T)
    except Untranslatable as e:
        tree = None
        err = e
    for name, model in (("fft2", "Fft.fft2Plan"), ("ifft2", "Fft.ifft2Plan")):
        kp, kd = f"{name}_plan", f"{name}_dim_ok"
        try:
            if tree is None:
                raise err
            steps, dim_test = _plan_of(find_function(tree, name), tree)
            body = ", ".join(f"⟨{g}, {o}⟩" for g, o in steps)
            out.append(f"/-- translated from `{T}`:`{name}` (ordered, flag-guarded call sequence) -/\n"
                       f"def {kp} : List Fft.Step := [{body}]\n")
            status[kp] = "translated"
        except Untranslatable as e:
            out.append(f"/-- SKIPPED ({e}) -/\ndef {kp} : List Fft.Step := {model}\n")
            status[kp] = f"skipped: {e}"
            dim_test = None
        try:
            if dim_test is None:
                raise Untranslatable("dim guard not found")
            var, elt = dim_test
            tr = ExprTr({var: "d"}, {f"isinstance({var}, int)": "true"})
            out.append(f"/-- translated from `{T}`:`{name}` (per-element test of `dim`) -/\n"
                       + emit_def(kd, ["d"], [], tr.bool(elt), "Bool"))
            status[kd] = "translated"
        except Untranslatable as e:
            out.append(f"/-- SKIPPED ({e}) -/\ndef {kd} (d : Int) : Bool := Fft.dimOk d\n")
            status[kd] = f"skipped: {e}"
    # order of the pieces in roll_one_dim's cat: 0 = left, 1 = right
    try:
        if tree is None:
            raise err
        fn = find_function(tree, "roll_one_dim")
        ret = [s for s in fn.body if isinstance(s, ast.Return)]
        last = ret[-1].value if ret else None
        if not (isinstance(last, ast.Call) and ast.unparse(last.func) == "torch.cat" and last.args
                and isinstance(last.args[0], (ast.Tuple, ast.List))):
            raise Untranslatable("`return torch.cat((…), dim=dim)` not found")
        d = _kw(last, "dim") if len(last.args) == 1 else last.args[1]
        if d is None or ast.unparse(d) != "dim":
            raise Untranslatable("cat is not along `dim`")
        names = [ast.unparse(e) for e in last.args[0].elts]
        if not all(n in ("left", "right") for n in names):
            raise Untranslatable(f"unexpected cat operands {names}")
        # the two pieces must be narrows of `data` along `dim`
        for piece in ("left", "right"):
            v = find_assign(fn, piece).value
            if not (isinstance(v, ast.Call) and ast.unparse(v.func) == "data.narrow" and len(v.args) == 3
                    and ast.unparse(v.args[0]) == "dim"):
                raise Untranslatable(f"`{piece}` is not `data.narrow(dim, …)`")
        out.append(f"/-- translated from `{T}`:`roll_one_dim` (operands of `torch.cat`: 0 = left, 1 = right) -/\n"
                   f"def roll_cat_order : List Nat := [{', '.join('0' if n == 'left' else '1' for n in names)}]\n")
        status["roll_cat_order"] = "translated"
    except Untranslatable as e:
        out.append(f"/-- SKIPPED ({e}) -/\ndef roll_cat_order : List Nat := [1, 0]\n")
        status["roll_cat_order"] = f"skipped: {e}"
    # dtype validation: verify_fft_dtype_possible and is_power_of_two
    try:
        if tree is None:
            raise err
        out.append(f"/-- translated from `{T}`:`verify_fft_dtype_possible` -/\n" + _verify_dtype(find_function(tree, "verify_fft_dtype_possible")))
        status["verify_fft_dtype_possible"] = "translated"
    except Untranslatable as e:
        out.append(f"/-- SKIPPED ({e}) -/\ndef verify_fft_dtype_possible (is_complex64_dtype is_float32_dtype all_pow2 : Bool) : Bool :=\n"
                   "  is_complex64_dtype || (is_float32_dtype && all_pow2)\n")
        status["verify_fft_dtype_possible"] = f"skipped: {e}"
    try:
        fn = find_function(parse_file(REPO / "direct/utils/__init__.py"), "is_power_of_two")
        out.append("/-- translated from `direct/utils/__init__.py`:`is_power_of_two` -/\n" + _is_pow2(fn))
        status["is_power_of_two"] = "translated"
    except Untranslatable as e:
        out.append(f"/-- SKIPPED ({e}) -/\ndef is_power_of_two (number : Nat) : Bool := Fft.isPow2 number\n")
        status["is_power_of_two"] = f"skipped: {e}"
    return "\n".join(out), status


def _verify_dtype(fn: ast.FunctionDef) -> str:
    """the predicate as ONE decision tree over three Boolean inputs: straight-line Boolean intermediates, `if c: return e` early
    returns, if/else, conditional expressions all become `if c then e else rest` (the bridge proves equality with the model by
    case analysis on the inputs, not by comparing text)"""
    env: dict[str, str] = {}
    sizes: set[str] = set()      # locals bound to `[data.size(idx) for idx in dims]`

    def is_sizes(n) -> bool:
        if isinstance(n, ast.Name):
            return n.id in sizes
        txt = ast.unparse(n).replace(" ", "")
        return txt in ("[data.size(idx)foridxindims]", "[data.shape[idx]foridxindims]", "(data.size(idx)foridxindims)",
                       "[data.size(_)for_indims]", "[data.shape[_]for_indims]")

    def b(n) -> str:
        if isinstance(n, ast.Name) and n.id in env:
            return env[n.id]
        if isinstance(n, ast.Constant) and isinstance(n.value, bool):
            return "true" if n.value else "false"
        if isinstance(n, ast.BoolOp):
            op = " && " if isinstance(n.op, ast.And) else " || "
            return "(" + op.join(b(v) for v in n.values) + ")"
        if isinstance(n, ast.UnaryOp) and isinstance(n.op, ast.Not):
            return f"(!{b(n.operand)})"
        if isinstance(n, ast.IfExp):
            return f"(if {b(n.test)} then {b(n.body)} else {b(n.orelse)})"
        if isinstance(n, ast.Call) and ast.unparse(n.func) == "bool" and len(n.args) == 1:
            return b(n.args[0])
        txt = ast.unparse(n).replace(" ", "")
        for dt, name in (("torch.complex64", "is_complex64_dtype"), ("torch.float32", "is_float32_dtype")):
            if txt in (f"data.dtype=={dt}", f"{dt}==data.dtype", f"data.dtypeis{dt}"):
                return name
            if txt in (f"data.dtype!={dt}", f"{dt}!=data.dtype", f"data.dtypeisnot{dt}"):
                return f"(!{name})"
        # all(is_power_of_two(v) for v in <sizes>)  /  all(is_power_of_two(data.size(idx)) for idx in dims)
        if isinstance(n, ast.Call) and ast.unparse(n.func) == "all" and len(n.args) == 1 \
                and isinstance(n.args[0], (ast.GeneratorExp, ast.ListComp)) and len(n.args[0].generators) == 1 \
                and not n.args[0].generators[0].ifs and isinstance(n.args[0].generators[0].target, ast.Name):
            g = n.args[0]
            v = g.generators[0].target.id
            elt = ast.unparse(g.elt).replace(" ", "")
            it = g.generators[0].iter
            if elt == f"is_power_of_two({v})" and is_sizes(it):
                return "all_pow2"
            if elt in (f"is_power_of_two(data.size({v}))", f"is_power_of_two(data.shape[{v}])") and ast.unparse(it) == "dims":
                return "all_pow2"
        raise Untranslatable(f"boolean expression `{ast.unparse(n)}`")

    def block(stmts) -> str | None:
        """-> Lean Bool term of the value returned by this statement list, None when it falls through"""
        for k, st in enumerate(stmts):
            if _is_docstring(st):
                continue
            if isinstance(st, ast.Assign) and len(st.targets) == 1 and isinstance(st.targets[0], ast.Name):
                if is_sizes(st.value):
                    sizes.add(st.targets[0].id)
                else:
                    env[st.targets[0].id] = b(st.value)
            elif isinstance(st, ast.Return) and st.value is not None:
                return b(st.value)
            elif isinstance(st, ast.If):
                saved = dict(env)
                th = block(st.body)
                env.clear(); env.update(saved)
                el = block(st.orelse) if st.orelse else None
                env.clear(); env.update(saved)
                if th is not None and el is not None:
                    return f"(if {b(st.test)} then {th} else {el})"
                rest = block(stmts[k + 1:])
                if rest is None:
                    raise Untranslatable("a branch falls off the end")
                if th is not None:
                    return f"(if {b(st.test)} then {th} else {rest})"
                if el is not None:
                    return f"(if {b(st.test)} then {rest} else {el})"
                raise Untranslatable("`if` without a return changes nothing the translator tracks")
            else:
                raise Untranslatable(f"unexpected statement `{ast.unparse(st)[:50]}`")
        return None

    ret = block(fn.body)
    if ret is None:
        raise Untranslatable("no return")
    return f"def verify_fft_dtype_possible (is_complex64_dtype is_float32_dtype all_pow2 : Bool) : Bool :=\n  {ret}\n"


def _is_pow2(fn: ast.FunctionDef) -> str:
    body = [s for s in fn.body if not _is_docstring(s)]
    if len(body) != 1 or not isinstance(body[0], ast.Return):
        raise Untranslatable("unexpected body of is_power_of_two")
    arg = fn.args.args[0].arg

    def e(n) -> str:
        if isinstance(n, ast.Name) and n.id == arg:
            return "number"
        if isinstance(n, ast.Constant) and isinstance(n.value, int) and not isinstance(n.value, bool) and n.value >= 0:
            return str(n.value)
        if isinstance(n, ast.BinOp) and isinstance(n.op, ast.BitAnd):
            return f"({e(n.left)} &&& {e(n.right)})"
        if isinstance(n, ast.BinOp) and isinstance(n.op, ast.Sub):
            return f"({e(n.left)} - {e(n.right)})"
        raise Untranslatable(f"expression `{ast.unparse(n)}`")

    def b(n) -> str:
        if isinstance(n, ast.BoolOp):
            op = " && " if isinstance(n.op, ast.And) else " || "
            return "(" + op.join(b(v) for v in n.values) + ")"
        if isinstance(n, ast.Compare) and len(n.ops) == 1 and isinstance(n.ops[0], (ast.Eq, ast.NotEq)):
            return f"({e(n.left)} {'==' if isinstance(n.ops[0], ast.Eq) else '!='} {e(n.comparators[0])})"
        raise Untranslatable(f"boolean expression `{ast.unparse(n)}`")
    return f"def is_power_of_two (number : Nat) : Bool :=\n  {b(body[0].value)}\n"


# =================================================================================================
# C01 phase 3: re-implementations of the centred transform with numpy outside transforms.py, structural facts about
# the functions of transforms.py (state / in-place / early returns), and every call site of the operators under direct/.
_NP_STAGE = {"np.fft.fftshift": ("shift", ".fshift"), "np.fft.ifftshift": ("shift", ".ishift"),
             "numpy.fft.fftshift": ("shift", ".fshift"), "numpy.fft.ifftshift": ("shift", ".ishift"),
             "np.fft.fft2": ("t2", "false"), "np.fft.ifft2": ("t2", "true"), "np.fft.fftn": ("tn", "false"),
             "np.fft.ifftn": ("tn", "true")}
REIMPLS = [("reimpl_fake_fft", "direct/data/fake.py", "fft", False, [-2, -1]),
           ("reimpl_fake_ifft", "direct/data/fake.py", "ifft", True, [-2, -1]),
           ("reimpl_shepp_fft", "direct/data/datasets.py", "SheppLoganDataset.fft", False, [1, 2])]


def _lit_axes(node, defaults):
    """axes expression -> list of ints | None (omitted / None)"""
    if node is None or (isinstance(node, ast.Constant) and node.value is None):
        return None
    if isinstance(node, ast.Name) and node.id in defaults:
        return _lit_axes(defaults[node.id], {})
    try:
        v = ast.literal_eval(node)
    except Exception:  # noqa: BLE001
        raise Untranslatable(f"axes `{ast.unparse(node)}` is not a literal")
    if isinstance(v, int):
        return [v]
    if isinstance(v, (tuple, list)) and all(isinstance(i, int) and not isinstance(i, bool) for i in v):
        return list(v)
    raise Untranslatable(f"axes `{ast.unparse(node)}`")


def scan_reimpl(fn: ast.FunctionDef):
    """-> (inverse, [lean step], [axes]) : the numpy stages applied to the first parameter, in dataflow order"""
    params = [a.arg for a in fn.args.args]
    if not params:
        raise Untranslatable("no parameter")
    defaults = dict(zip(params[len(params) - len(fn.args.defaults):], fn.args.defaults))
    env = {params[0]: []}

    def ev(e):
        if isinstance(e, ast.Name):
            if e.id not in env:
                raise Untranslatable(f"`{e.id}` is not derived from `{params[0]}`")
            return env[e.id]
        if isinstance(e, ast.Call) and ast.unparse(e.func) in _NP_STAGE and e.args:
            kind, what = _NP_STAGE[ast.unparse(e.func)]
            base = ev(e.args[0])
            ax = e.args[1] if len(e.args) > 1 else _kw(e, "axes")
            if len(e.args) > 2 or any(k.arg not in ("axes", "norm") for k in e.keywords):
                raise Untranslatable(f"unexpected arguments in `{ast.unparse(e)[:60]}`")
            axes = _lit_axes(ax, defaults)
            if kind == "shift":
                return base + [(f"⟨.always, {what}⟩", axes, None)]
            nm = _kw(e, "norm")
            txt = "None" if nm is None else ast.unparse(nm).replace('"', "'")
            if txt not in _NORMS:
                raise Untranslatable(f"unknown norm `{txt}`")
            if axes is None and kind == "t2":
                axes = [-2, -1]
            return base + [(f"⟨.always, (.transform {what} {_NORMS[txt]} {_NORMS[txt]})⟩", axes, what == "true")]
        raise Untranslatable(f"unexpected expression `{ast.unparse(e)[:60]}`")

    for st in fn.body:
        if _is_docstring(st):
            continue
        if isinstance(st, ast.Assign) and len(st.targets) == 1 and isinstance(st.targets[0], ast.Name):
            env[st.targets[0].id] = ev(st.value)
        elif isinstance(st, ast.Return) and st.value is not None:
            stages = ev(st.value)
            inv = [i for _, _, i in stages if i is not None]
            return (inv[0] if inv else False), [s for s, _, _ in stages], [a for _, a, _ in stages]
        else:
            raise Untranslatable(f"unexpected statement `{ast.unparse(st)[:60]}`")
    raise Untranslatable("no return")


def _lean_axes(a):
    return "none" if a is None else "some [" + ", ".join(str(i) for i in a) + "]"


FN_FACTS = [("fft2", ".fft2"), ("ifft2", ".ifft2"), ("roll", ".roll"), ("roll_one_dim", ".rollOneDim"), ("fftshift", ".fftshift"),
            ("ifftshift", ".ifftshift"), ("verify_fft_dtype_possible", ".verifyDtype"), ("view_as_complex", ".viewAsComplex"),
            ("view_as_real", ".viewAsReal")]


_AMBIENT = ("is_autocast_enabled", "is_autocast_cpu_enabled", "get_autocast_dtype", "get_autocast_gpu_dtype", "get_autocast_cpu_dtype",
            "is_autocast_cache_enabled", "is_grad_enabled", "is_inference_mode_enabled", "is_inference", "get_default_dtype",
            "get_default_device", "are_deterministic_algorithms_enabled", "is_deterministic_algorithms_warn_only_enabled",
            "get_num_threads", "get_float32_matmul_precision", "is_anomaly_enabled", "getenv")
_AMBIENT_PREFIX = ("torch.backends.", "os.environ", "torch._C._get", "torch.cuda.amp", "torch.amp.")


def ambient_reads(fn: ast.AST) -> int:
    """references to ambient interpreter / torch state inside `fn`"""
    k = 0
    for n in ast.walk(fn):
        if isinstance(n, ast.Attribute):
            txt = ast.unparse(n)
            if n.attr in _AMBIENT or any(txt.startswith(p) for p in _AMBIENT_PREFIX):
                k += 1
        elif isinstance(n, ast.Name) and n.id in _AMBIENT:
            k += 1
    return k


def _helper_closure(tree: ast.Module, fn: ast.FunctionDef, exclude: set[str]):
    """module-level functions of the same file that `fn` (transitively) calls by name, except the anchored ones"""
    defs = {d.name: d for d in tree.body if isinstance(d, ast.FunctionDef)}
    seen, todo = [], [fn]
    while todo:
        f = todo.pop()
        for n in ast.walk(f):
            if isinstance(n, ast.Call) and isinstance(n.func, ast.Name) and n.func.id in defs and n.func.id not in exclude \
                    and n.func.id != fn.name and defs[n.func.id] not in seen:
                seen.append(defs[n.func.id])
                todo.append(defs[n.func.id])
    return seen


def fn_facts(fn: ast.FunctionDef, tree: ast.Module = None, exclude: set[str] = frozenset()):
    """-> dict(globals, foreignStores, inplace, decorators, mutableDefaults, earlyReturns, ambient); the first three and `ambient`
    include the private helpers of the module that `fn` calls (a helper extracted from / inlined into it changes nothing)"""
    f = _fn_facts1(fn)
    f["ambient"] = ambient_reads(fn)
    if tree is not None:
        for h in _helper_closure(tree, fn, set(exclude)):
            g = _fn_facts1(h)
            for k in ("globals", "foreignStores", "inplace"):
                f[k] += g[k]
            f["ambient"] += ambient_reads(h)
    return f


def _fn_facts1(fn: ast.FunctionDef):
    """-> dict(globals, foreignStores, inplace, decorators, mutableDefaults, earlyReturns) of one function body"""
    params = {a.arg for a in fn.args.args + fn.args.kwonlyargs}
    tensors = {a.arg for a in fn.args.args + fn.args.kwonlyargs
               if a.arg == "data" or (a.annotation is not None and "Tensor" in ast.unparse(a.annotation))}
    fresh = set()          # names bound to a list built inside the function
    for n in ast.walk(fn):
        if isinstance(n, ast.Assign) and len(n.targets) == 1 and isinstance(n.targets[0], ast.Name):
            v = n.value
            if isinstance(v, (ast.List, ast.ListComp)) or (isinstance(v, ast.BinOp) and isinstance(v.left, ast.List)) \
                    or (isinstance(v, ast.Call) and ast.unparse(v.func) == "list"):
                fresh.add(n.targets[0].id)
    f = dict(globals=0, foreignStores=0, inplace=0, decorators=len(fn.decorator_list), mutableDefaults=0, earlyReturns=0)
    for d in list(fn.args.defaults) + [k for k in fn.args.kw_defaults if k is not None]:
        if isinstance(d, (ast.List, ast.Dict, ast.Set, ast.Call, ast.ListComp, ast.DictComp)):
            f["mutableDefaults"] += 1

    def store(t):
        if isinstance(t, (ast.Tuple, ast.List)):
            for e in t.elts:
                store(e)
        elif isinstance(t, ast.Attribute):
            f["foreignStores"] += 1
        elif isinstance(t, ast.Subscript):
            base = t.value
            while isinstance(base, (ast.Subscript, ast.Attribute)):
                base = base.value
            if isinstance(base, ast.Name) and base.id in fresh:
                return
            if isinstance(base, ast.Name) and base.id in params:
                f["inplace"] += 1
            else:
                f["foreignStores"] += 1

    for n in ast.walk(fn):
        if isinstance(n, (ast.Global, ast.Nonlocal)):
            f["globals"] += 1
        elif isinstance(n, ast.Assign):
            for t in n.targets:
                store(t)
        elif isinstance(n, ast.AnnAssign):
            store(n.target)
        elif isinstance(n, ast.AugAssign):
            if isinstance(n.target, ast.Name):
                if n.target.id in tensors:
                    f["inplace"] += 1      # `data += …` on a tensor argument updates the caller's tensor in place
            else:
                store(n.target)
        elif isinstance(n, ast.Call):
            if isinstance(n.func, ast.Attribute) and n.func.attr.endswith("_") and not n.func.attr.startswith("__"):
                f["inplace"] += 1
            if any(k.arg == "out" for k in n.keywords):
                f["inplace"] += 1
            if ast.unparse(n.func) in ("setattr", "globals", "vars", "object.__setattr__"):
                f["foreignStores"] += 1
        elif isinstance(n, (ast.FunctionDef, ast.Lambda)) and n is not fn:
            pass
    body = [s for s in fn.body if not _is_docstring(s)]
    rets = [n for n in ast.walk(fn) if isinstance(n, ast.Return)]

    def boolish(e):
        return e is not None and (
            (isinstance(e, ast.Constant) and isinstance(e.value, bool)) or isinstance(e, (ast.Compare, ast.BoolOp))
            or (isinstance(e, ast.UnaryOp) and isinstance(e.op, ast.Not))
            or (isinstance(e, ast.Call) and ast.unparse(e.func) in ("all", "any", "isinstance", "bool", "is_power_of_two")))
    # an early `return <boolean expression>` of a predicate is a branch of its decision tree (its value is tied by the translated
    # kernel / correspondence); what is counted is an early exit that hands back a tensor before the rest of the body ran
    f["earlyReturns"] = sum(1 for r in rets if not (body and r is body[-1]) and not boolish(r.value))
    return f


_OP_NAMES = ("fft2", "ifft2", "forward_operator", "backward_operator")


def _spatial_literals(tree):
    found = []
    for n in ast.walk(tree):
        vals = []
        if isinstance(n, ast.Assign) and any("spatial_dims" in ast.unparse(t) for t in n.targets):
            vals = [n.value]
        elif isinstance(n, ast.AnnAssign) and "spatial_dims" in ast.unparse(n.target) and n.value is not None:
            vals = [n.value]
        elif isinstance(n, ast.Call) and ast.unparse(n.func).endswith("SpatialDims"):
            vals = [k.value for k in n.keywords] + list(n.args)
        elif isinstance(n, (ast.FunctionDef, ast.AsyncFunctionDef)):
            a = n.args
            ps = a.args + a.kwonlyargs
            ds = [None] * (len(a.args) - len(a.defaults)) + list(a.defaults) + list(a.kw_defaults)
            vals = [d for p, d in zip(ps, ds) if d is not None and "spatial_dims" in p.arg]
        for v in vals:
            try:
                lit = ast.literal_eval(v)
            except Exception:  # noqa: BLE001
                continue
            if isinstance(lit, (tuple, list)) and lit and all(isinstance(i, int) and not isinstance(i, bool) for i in lit):
                if list(lit) not in found:
                    found.append(list(lit))
    return found


def scan_call_sites(repo=None):
    """every call of fft2 / ifft2 / forward_operator / backward_operator under direct/ (not the numpy ones, not the
    `_forward_operator` wrappers) -> (files, [dict(file, line, understood, dims, overrides, text)])"""
    from ..gen import REPO
    repo = repo or REPO
    files = sorted(p for p in (repo / "direct").rglob("*.py"))
    trees = {}
    for p in files:
        try:
            trees[p] = parse_file(p)
        except Untranslatable:
            continue
    glob = []
    for p, t in trees.items():
        for lit in _spatial_literals(t):
            if lit not in glob:
                glob.append(lit)
    glob.sort()
    sites = []
    for fi, p in enumerate(files):
        t = trees.get(p)
        if t is None:
            continue
        local = sorted(_spatial_literals(t)) or glob
        for n in ast.walk(t):
            if not isinstance(n, ast.Call):
                continue
            ftxt = ast.unparse(n.func)
            last = ftxt.split(".")[-1]
            if last not in _OP_NAMES or ftxt.startswith(("np.", "numpy.", "torch.fft")):
                continue
            dexpr = _kw(n, "dim")
            if dexpr is None and len(n.args) >= 2:
                dexpr = n.args[1]
            understood, dims = True, []
            if dexpr is None:
                dims = [[1, 2]]
            else:
                inner = dexpr
                if isinstance(inner, ast.Call) and ast.unparse(inner.func) in ("tuple", "list") and len(inner.args) == 1:
                    inner = inner.args[0]
                try:
                    lit = ast.literal_eval(inner)
                    if isinstance(lit, int):
                        lit = [lit]
                    dims = [list(lit)]
                    if not all(isinstance(i, int) and not isinstance(i, bool) for i in dims[0]):
                        understood, dims = False, []
                except Exception:  # noqa: BLE001
                    if isinstance(inner, (ast.Name, ast.Attribute)):
                        dims = [list(x) for x in local]
                    elif isinstance(inner, (ast.GeneratorExp, ast.ListComp)) and len(inner.generators) == 1 \
                            and isinstance(inner.generators[0].target, ast.Name) and not inner.generators[0].ifs \
                            and isinstance(inner.generators[0].iter, (ast.Name, ast.Attribute)):
                        v = inner.generators[0].target.id
                        e = inner.elt
                        if isinstance(e, ast.Name) and e.id == v:
                            k = 0
                        elif (isinstance(e, ast.BinOp) and isinstance(e.op, (ast.Sub, ast.Add)) and isinstance(e.left, ast.Name)
                              and e.left.id == v and isinstance(e.right, ast.Constant) and isinstance(e.right.value, int)):
                            k = e.right.value if isinstance(e.op, ast.Add) else -e.right.value
                        else:
                            k = None
                        if k is None:
                            understood = False
                        else:
                            dims = [[x + k for x in lit] for lit in local]
                    else:
                        understood = False
            overrides = []
            for kw in n.keywords:
                if kw.arg == "dim":
                    continue
                if kw.arg in ("centered", "normalized", "complex_input"):
                    if isinstance(kw.value, ast.Constant) and isinstance(kw.value.value, bool):
                        overrides.append((("centered", "normalized", "complex_input").index(kw.arg), kw.value.value))
                elif kw.arg is not None:
                    overrides.append((9, False))          # a keyword fft2 / ifft2 do not have
            sites.append(dict(file=fi, path=str(p.relative_to(repo)), line=n.lineno, understood=understood, dims=dims,
                              overrides=overrides, text=ast.unparse(n)[:120]))
    sites.sort(key=lambda d: (d["file"], d["line"], d["text"]))
    return [str(p.relative_to(repo)) for p in files], sites


def _c01_phase3_extra():
    from ..gen import REPO, find_function, parse_file as _pf

    out, status = [], {}
    trees = {}

    def tree(rel):
        if rel not in trees:
            trees[rel] = _pf(REPO / rel)
        return trees[rel]

    for name, rel, qual, inv, axes in REIMPLS:
        try:
            i, steps, ax = scan_reimpl(find_function(tree(rel), qual))
            out.append(f"/-- translated from `{rel}`:`{qual}` (numpy stages in dataflow order, axes of every stage) -/\n"
                       f"def {name} : Fft.Reimpl :=\n  {{ inverse := {'true' if i else 'false'}, steps := [{', '.join(steps)}],\n"
                       f"    axes := [{', '.join(_lean_axes(a) for a in ax)}] }}\n")
            status[name] = "translated"
        except Untranslatable as e:
            a = _lean_axes(axes)
            out.append(f"/-- SKIPPED ({e}) -/\ndef {name} : Fft.Reimpl :=\n  {{ inverse := {'true' if inv else 'false'}, "
                       f"steps := Fft.centredPlan {'true' if inv else 'false'}, axes := [{a}, {a}, {a}] }}\n")
            status[name] = f"skipped: {e}"
    rows = []
    try:
        t = tree(T)
        for pyname, lean in FN_FACTS:
            f = fn_facts(find_function(t, pyname), t, {n for n, _ in FN_FACTS})
            rows.append(f"  ⟨{lean}, {f['globals']}, {f['foreignStores']}, {f['inplace']}, {f['decorators']}, {f['mutableDefaults']}, "
                        f"{f['earlyReturns']}, {f['ambient']}⟩")
        out.append(f"/-- translated from `{T}`: per function — `global`s, foreign stores, in-place updates of an argument, decorators, "
                   "mutable defaults, early returns, reads of ambient torch state (helpers of the module included) -/\n"
                   "def fn_facts : List Fft.FnFacts := [\n" + ",\n".join(rows) + "]\n")
        status["fn_facts"] = "translated"
    except Untranslatable as e:
        rows = [f"  ⟨{lean}, 0, 0, 0, 0, 0, {1 if lean == '.rollOneDim' else 0}, 0⟩" for _, lean in FN_FACTS]
        out.append(f"/-- SKIPPED ({e}) -/\ndef fn_facts : List Fft.FnFacts := [\n" + ",\n".join(rows) + "]\n")
        status["fn_facts"] = f"skipped: {e}"
    try:
        files, sites = scan_call_sites()
        lines = []
        for s_ in sites:
            dims = "[" + ", ".join("[" + ", ".join(str(i) for i in d) + "]" for d in s_["dims"]) + "]"
            ov = "[" + ", ".join(f"({k}, {'true' if v else 'false'})" for k, v in s_["overrides"]) + "]"
            lines.append(f"  ⟨{s_['file']}, {s_['line']}, {'true' if s_['understood'] else 'false'}, {dims}, {ov}⟩  -- {s_['path']}")
        # keep the path as a trailing comment on each row
        rows_txt = []
        for i, l in enumerate(lines):
            row, path = l.split("  -- ")
            rows_txt.append(row + ("," if i + 1 < len(lines) else "") + "  -- " + path)
        out.append("/-- every call of `fft2` / `ifft2` / `forward_operator` / `backward_operator` under `direct/`: file index, line, "
                   "`dim` understood?, the axis tuples it can denote, flag overrides -/\n"
                   "def call_sites : List Fft.CallSite := [\n" + "\n".join(rows_txt) + "\n  ]\n")
        status["call_sites"] = "translated"
    except Untranslatable as e:
        out.append(f"/-- SKIPPED ({e}) -/\ndef call_sites : List Fft.CallSite := []\n")
        status["call_sites"] = f"skipped: {e}"
    return "\n".join(out), status


def _c01_all_extra():
    a, sa = _c01_extra()
    b, sb = _c01_phase3_extra()
    sa.update(sb)
    return a + "\n" + b, sa


EXTRA["C01"] = _c01_all_extra
