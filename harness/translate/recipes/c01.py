"""Per-property translation recipes (see gen.py)."""
from __future__ import annotations

import ast

from ..gen import (EXTRA, Kernel, Untranslatable, all_stmts, assign_value, find_assign, find_for,
                  guard_condition, register, straightline)
from ..pyexpr import ExprTr, emit_def, translate_block

T = "direct/data/transforms.py"
CROP = ("DirectVerif.Model.Crop",)
SHIFT = ("DirectVerif.Model.Shift",)

# =================================================================================================
# C01 (shift arithmetic)
register("C01", [
    Kernel("fftshift_amount", T, "fftshift", ["n"], "Shift.fftshiftAmount",
           assign_value({"data.shape[dim_num]": "n"}, "shift[idx]"), imports=SHIFT),
    Kernel("ifftshift_amount", T, "ifftshift", ["n"], "Shift.ifftshiftAmount",
           assign_value({"data.shape[dim_num]": "n"}, "shift[i]"), imports=SHIFT),
    Kernel("roll_one_dim_shift", T, "roll_one_dim", ["shift", "n"], "(fun shift n => Int.fmod shift n)",
           straightline({"shift": "shift", "data.size(dim)": "n"}, "shift"), imports=SHIFT),
    Kernel("roll_left_start", T, "roll_one_dim", ["shift", "n"], "(fun _ _ => 0)",
           assign_value({"shift": "shift", "data.size(dim)": "n"}, "left", arg=1), imports=SHIFT),
    Kernel("roll_left_len", T, "roll_one_dim", ["shift", "n"], "(fun shift n => n - shift)",
           assign_value({"shift": "shift", "data.size(dim)": "n"}, "left", arg=2), imports=SHIFT),
    Kernel("roll_right_start", T, "roll_one_dim", ["shift", "n"], "(fun shift n => n - shift)",
           assign_value({"shift": "shift", "data.size(dim)": "n"}, "right", arg=1), imports=SHIFT),
    Kernel("roll_right_len", T, "roll_one_dim", ["shift", "n"], "(fun shift _ => shift)",
           assign_value({"shift": "shift", "data.size(dim)": "n"}, "right", arg=2), imports=SHIFT),
])
