"""C19 — operator composition of MRILogLikelihood.forward and ConjGrad as Lean *plans*.

The tensor code of the two blocks is straight-line over a small vocabulary (expand / reduce / forward /
backward / mask / + / - / scalar* / dot / complex division).  This recipe walks the Python AST, inlines the
helper methods (`_A_star_op`, `_A_star_A_op`, `B_op`) and functions (`_PRP`, `_DY`, `_BAN`), resolves locals by
value numbering (renaming a local is invisible, `.clone()` / `.reshape(..)` are layout-only and dropped) and emits
`DirectVerif.DataConsistency.Plan` values.  `Bridge/C19.lean` proves the generated plans equal the hand-written
ones (by `decide`) and that those evaluate to `loglik` / `cgInit` / `cgStep` for every operations record.

A call the recipe has no rule for becomes `.unknown tag` (the bridge then fails and the failing-input search runs);
syntax outside the straight-line fragment makes the kernel `skipped` (hand-written plan is emitted instead).
"""
from __future__ import annotations

import ast
import zlib

from ..gen import EXTRA, REPO, Untranslatable, find_function, parse_file

RIM = "direct/nn/rim/rim.py"
CG = "direct/nn/conjgradnet/conjgrad.py"

K, V, W = "K", "V", "W"
_SIG = {  # op -> (argument kinds, result kind); None = same as first non-scalar argument
    "expand": ((V,), W), "reduce": ((W,), V), "fwd": ((W,), W), "bwd": ((W,), W), "mask": ((W,), W),
    "maskC": ((W,), W), "pad": ((W,), W), "mulConjV": ((V, W), W),
    "dot": ((V, V), K), "cdiv": ((K, K), K), "toLast": ((V,), V), "toFirst": ((V,), V),
}


class Role:
    """a non-tensor binding: the sensitivity map, the sampling mask, `dim`, `shape`, `self`"""

    def __init__(self, name):
        self.name = name

    def __repr__(self):
        return f"<{self.name}>"


SENS, MASK, MASKC, DIM, SHAPE = Role("sens"), Role("mask"), Role("maskC"), Role("dim"), Role("shape")
ZERO, MASKZERO = Role("zero"), Role("maskzero")      # hoisted `torch.tensor([0.0], …)` / `sampling_mask == 0`
UPDATES = ("FR", "PRP", "DY", "BAN")


class _Stub:
    """stands for a tensor in index arithmetic (`x.ndim`, `x.shape`, `len(x.shape[1:])`)"""

    def __init__(self, shape):
        self.shape = tuple(shape)
        self.ndim = len(shape)

    def dim(self):
        return self.ndim

    def size(self, i=None):
        return self.shape if i is None else self.shape[i]


def _eval_index_expr(node: ast.AST, names: dict):
    """value of a pure index-arithmetic expression (lists / ints built from ranks and shapes), for given stub tensors"""
    import torch

    code = compile(ast.Expression(body=node), "<c19-index>", "eval")
    env = {"torch": torch, "len": len, "range": range, "list": list, "tuple": tuple, "int": int, "__builtins__": {}}
    env.update(names)
    val = eval(code, env)  # noqa: S307 - expression of the repository under check, no builtins
    if isinstance(val, (list, tuple)):
        return [int(v) for v in val]
    return int(val)


LAST_UNKNOWN: list[str] = []


def _understood(ns):
    """a plan with a call the recipe has no rule for is NOT a mismatch: the kernel is skipped (hand-written model + correspondence)"""
    if any(op.startswith("unknown") for op, _ in ns):
        what = LAST_UNKNOWN[-1] if LAST_UNKNOWN else "?"
        raise Untranslatable(f"no translation rule for `{what[:60]}`")
    return ns


class Builder:
    def __init__(self, param_kinds: list[str]):
        self.nodes: list[tuple[str, list[int]]] = []
        self.kinds: list[str | None] = []
        self.param_kinds = param_kinds
        self.param_node: dict[int, int] = {}

    def emit(self, op: str, args: list[int], kind=None) -> int:
        self.nodes.append((op, list(args)))
        self.kinds.append(kind)
        return len(self.nodes) - 1

    def param(self, i: int) -> int:
        if i not in self.param_node:
            self.param_node[i] = self.emit(f"param {i}", [], self.param_kinds[i])
        return self.param_node[i]

    def op(self, name: str, args: list[int]) -> int:
        if name in ("add", "sub"):
            ka, kb = self.kinds[args[0]], self.kinds[args[1]]
            return self.emit(name, args, ka if ka == kb else None)
        if name == "mul":
            a, b = args
            if self.kinds[b] == K and self.kinds[a] in (V, W):   # `x * lambd` == `lambd * x`
                a, b = b, a
            return self.emit("mul", [a, b], self.kinds[b] if self.kinds[a] == K else None)
        want, res = _SIG[name]
        ok = all(self.kinds[a] == k for a, k in zip(args, want)) and len(args) == len(want)
        return self.emit(name, args, res if ok else None)

    def unknown(self, what: str, args: list[int]) -> int:
        LAST_UNKNOWN.append(what)
        return self.emit(f"unknown {zlib.crc32(what.encode()) % 1000}", args, None)


class ClassInfo:
    def __init__(self, tree: ast.Module, cls: str, base: "ClassInfo | None" = None):
        self.tree = tree
        self.cls = cls
        self.base = base
        self.consts: dict[str, object] = dict(base.consts) if base else {}
        self.defaults = {}
        try:
            init = find_function(tree, f"{cls}.__init__")
        except Untranslatable:
            if base is None:
                raise
            init = ast.parse("def f():\n    pass").body[0]
        for st in init.body:
            if (isinstance(st, ast.Assign) and len(st.targets) == 1 and isinstance(st.targets[0], ast.Attribute)
                    and isinstance(st.targets[0].value, ast.Name) and st.targets[0].value.id == "self"):
                try:
                    self.consts[st.targets[0].attr] = ast.literal_eval(st.value)
                except (ValueError, SyntaxError):
                    pass

    def method(self, name: str) -> ast.FunctionDef:
        try:
            return find_function(self.tree, f"{self.cls}.{name}")
        except Untranslatable:
            if self.base is not None:
                return self.base.method(name)
            raise

    def const(self, node: ast.AST):
        """value of a literal, of `self._x` set to a literal in __init__, or of a parameter with a literal default"""
        if isinstance(node, ast.Name) and node.id in self.defaults:
            return self.defaults[node.id]
        if isinstance(node, ast.Attribute) and isinstance(node.value, ast.Name) and node.value.id == "self":
            if node.attr in self.consts:
                return self.consts[node.attr]
            raise Untranslatable(f"`self.{node.attr}` is not a literal set in __init__")
        try:
            return ast.literal_eval(node)
        except (ValueError, SyntaxError):
            raise Untranslatable(f"`{ast.unparse(node)}` is not a literal")


# methods / module-level helpers that are inlined when called
_INLINE_METHODS = {"_A_star_op", "_A_star_A_op", "B_op", "_forward_operator", "_backward_operator"}
_INLINE_HELPERS = {"_PRP", "_DY", "_BAN"}


class Tr:
    """translate expressions/statements of one function body into nodes of a Builder"""

    def __init__(self, info: ClassInfo, b: Builder, env: dict, coil: int = 1, spatial: tuple = (2, 3)):
        self.info, self.b, self.env = info, b, env
        self.COIL, self.SPATIAL = coil, tuple(spatial)
        self.depth = 0
        self.update = None            # the `bk_update_type` this translation is specialised to
        self.branches = []            # update types tested, in source order (shared with inlined helpers)

    # ---- helpers
    def _kw(self, call: ast.Call, name: str, pos: int | None = None):
        for k in call.keywords:
            if k.arg == name:
                return k.value
        if pos is not None and len(call.args) > pos:
            return call.args[pos]
        return None

    def role_of(self, node: ast.AST):
        """the Role bound to a name / subscript / attribute (by source text); `~mask` is the complementary mask"""
        if isinstance(node, ast.UnaryOp) and isinstance(node.op, ast.Invert):
            return MASKC if self.role_of(node.operand) is MASK else None
        if isinstance(node, (ast.Name, ast.Subscript, ast.Attribute)):
            v = self.env.get(ast.unparse(node))
            return v if isinstance(v, Role) else None
        return None

    def _is(self, node: ast.AST, role: Role) -> bool:
        return self.role_of(node) is role

    def _fname(self, f: ast.AST) -> str:
        if isinstance(f, ast.Name):
            return f.id
        if isinstance(f, ast.Attribute) and isinstance(f.value, ast.Name) and f.value.id in ("T", "torch", "self"):
            return f"{f.value.id}.{f.attr}"
        return ast.unparse(f)

    def _zero_tensor(self, node: ast.AST) -> bool:
        if self.role_of(node) is ZERO:
            return True
        t = ast.unparse(node).replace(" ", "")
        return t.startswith("torch.tensor([0.0]") or t.startswith("torch.tensor(0.0") or t.startswith("torch.zeros(1,")

    def _mask_is_zero(self, test: ast.AST) -> bool:
        """`sampling_mask == 0` (or a local holding it)"""
        if self.role_of(test) is MASKZERO:
            return True
        return (isinstance(test, ast.Compare) and len(test.ops) == 1 and isinstance(test.ops[0], ast.Eq)
                and self._is(test.left, MASK) and ast.unparse(test.comparators[0]) in ("0", "0.0", "False"))

    # ---- expressions
    def expr(self, node: ast.AST) -> int:
        b = self.b
        if isinstance(node, (ast.Name, ast.Subscript)) or (isinstance(node, ast.Attribute) and ast.unparse(node) in self.env):
            key = ast.unparse(node)
            if key not in self.env:
                raise Untranslatable(f"unbound name `{key}`")
            v = self.env[key]
            if isinstance(v, Role):
                return b.unknown(f"role {v.name} used as tensor", [])
            if isinstance(v, tuple) and v[0] == "param":
                return b.param(v[1])
            return v
        if isinstance(node, ast.BinOp) and isinstance(node.op, (ast.Add, ast.Sub, ast.Mult)):
            a, c = self.expr(node.left), self.expr(node.right)
            return b.op({ast.Add: "add", ast.Sub: "sub", ast.Mult: "mul"}[type(node.op)], [a, c])
        if isinstance(node, ast.Call):
            return self.call(node)
        raise Untranslatable(f"expression `{ast.unparse(node)}`")

    _LIB = None

    @classmethod
    def _lib_signatures(cls) -> dict:
        """parameter names of the module-level functions of direct/data/transforms.py (the library helpers)"""
        if cls._LIB is None:
            cls._LIB = {}
            try:
                for st in parse_file(REPO / "direct/data/transforms.py").body:
                    if isinstance(st, ast.FunctionDef):
                        cls._LIB[st.name] = [a.arg for a in st.args.posonlyargs + st.args.args]
            except Exception:  # noqa: BLE001
                pass
        return cls._LIB

    def _normalise_call(self, node: ast.Call) -> ast.Call:
        """library helper called with keywords -> the same call with positional arguments (by the helper's own signature);
        `torch.unsqueeze(x, d)` / `torch.sum(x, d)` -> method form"""
        f = node.func
        nm = f.attr if isinstance(f, ast.Attribute) and isinstance(f.value, ast.Name) and f.value.id == "T" else \
            f.id if isinstance(f, ast.Name) else None
        if nm is not None and node.keywords and nm in self._lib_signatures():
            params = self._lib_signatures()[nm]
            bound = dict(zip(params, node.args))
            extra = []
            for k in node.keywords:
                if k.arg is None or k.arg in bound or k.arg not in params:
                    return node
                bound[k.arg] = k.value
            args = []
            for p_ in params:
                if p_ in bound and len(args) == params.index(p_):
                    args.append(bound[p_])
                elif p_ in bound:
                    extra.append(ast.keyword(arg=p_, value=bound[p_]))
            return ast.copy_location(ast.Call(func=f, args=args, keywords=extra), node)
        if isinstance(f, ast.Attribute) and isinstance(f.value, ast.Name) and f.value.id == "torch" and f.attr in ("unsqueeze", "sum") \
                and node.args:
            return ast.copy_location(ast.Call(func=ast.Attribute(value=node.args[0], attr=f.attr, ctx=ast.Load()),
                                              args=list(node.args[1:]), keywords=list(node.keywords)), node)
        return node

    def call(self, node: ast.Call) -> int:
        node = self._normalise_call(node)
        b, f = self.b, node.func
        # method-style calls on a tensor value
        if isinstance(f, ast.Attribute) and not (isinstance(f.value, ast.Name) and f.value.id in ("T", "torch", "self")):
            if f.attr in ("clone", "contiguous") and not node.args:
                return self.expr(f.value)
            if f.attr == "reshape":
                return self.expr(f.value)                    # layout only
            if f.attr == "permute":
                perm = tuple(self.info.const(a) for a in node.args)
                inner = self.expr(f.value)
                if perm == (0, 2, 3, 1):
                    return b.op("toLast", [inner])
                if perm == (0, 3, 1, 2):
                    return b.op("toFirst", [inner])
                return b.unknown(f"permute{perm}", [inner])
            if f.attr == "sum":
                # complex_multiplication(conjugate(S), w).sum(coil) == reduce_operator
                inner = f.value
                axis = self.info.const(node.args[0]) if node.args else (
                    self.info.const(self._kw(node, "dim")) if self._kw(node, "dim") is not None else None)
                if (isinstance(inner, ast.Call) and self._fname(inner.func) in ("T.complex_multiplication", "complex_multiplication")
                        and len(inner.args) == 2 and isinstance(inner.args[0], ast.Call)
                        and self._fname(inner.args[0].func) in ("T.conjugate", "conjugate")
                        and len(inner.args[0].args) == 1 and self._is(inner.args[0].args[0], SENS)):
                    w = self.expr(inner.args[1])
                    if axis == self.COIL:
                        return b.op("reduce", [w])
                    return b.unknown(f"sum axis {axis}", [w])
                return b.unknown("sum", [self.expr(inner)])
            return b.unknown(f".{f.attr}", [])
        name = self._fname(f)
        if name in ("T.complex_multiplication", "complex_multiplication") and len(node.args) == 2:
            a0, a1 = node.args
            if isinstance(a1, ast.Call):
                a1 = self._normalise_call(a1)
            if isinstance(a0, ast.Call):
                a0 = self._normalise_call(a0)
            # cmul is commutative: `complex_multiplication(x.unsqueeze(coil), S)` is the same expansion
            if (self._is(a1, SENS) and isinstance(a0, ast.Call) and isinstance(a0.func, ast.Attribute) and a0.func.attr == "unsqueeze"):
                a0, a1 = a1, a0
            if (self._is(a0, SENS) and isinstance(a1, ast.Call) and isinstance(a1.func, ast.Attribute)
                    and a1.func.attr == "unsqueeze"):
                x = self.expr(a1.func.value)
                ax = self.info.const(a1.args[0]) if a1.args else self.info.const(self._kw(a1, "dim"))
                return b.op("expand", [x]) if ax == self.COIL else b.unknown(f"unsqueeze {ax}", [x])
            # complex_multiplication(w, conjugate(x).unsqueeze(coil)): coil-wise product with the conjugate image
            if (isinstance(a1, ast.Call) and isinstance(a1.func, ast.Attribute) and a1.func.attr == "unsqueeze"
                    and isinstance(a1.func.value, ast.Call) and self._fname(a1.func.value.func) in ("T.conjugate", "conjugate")
                    and len(a1.func.value.args) == 1):
                w = self.expr(a0)
                x = self.expr(a1.func.value.args[0])
                ax = self.info.const(a1.args[0]) if a1.args else self.info.const(self._kw(a1, "dim"))
                return b.op("mulConjV", [x, w]) if ax == self.COIL else b.unknown(f"unsqueeze {ax}", [x, w])
            a, c = self.expr(a0), self.expr(a1)
            if b.kinds[a] == K:
                return b.op("mul", [a, c])
            return b.unknown("complex_multiplication", [a, c])
        if name in ("T.expand_operator", "expand_operator", "T.reduce_operator", "reduce_operator"):
            first = node.args[0] if node.args else (self._kw(node, "coil_data") or self._kw(node, "data"))
            if first is None:
                raise Untranslatable(f"call `{ast.unparse(node)[:60]}`")
            x = self.expr(first)
            sens = node.args[1] if len(node.args) > 1 else self._kw(node, "sensitivity_map")
            dim = self._kw(node, "dim", 2)
            ax = self.info.const(dim) if dim is not None else 0
            op = "expand" if "expand" in name else "reduce"
            if sens is not None and self._is(sens, SENS) and ax == self.COIL:
                return b.op(op, [x])
            return b.unknown(f"{op} dim {ax}", [x])
        if name in ("self.forward_operator", "self.backward_operator"):
            x = self.expr(node.args[0])
            dim = self._kw(node, "dim", 1)
            dims = tuple(self.info.const(dim)) if dim is not None else None
            op = "fwd" if "forward" in name else "bwd"
            return b.op(op, [x]) if dims == self.SPATIAL else b.unknown(f"{op} dim {dims}", [x])
        if name == "torch.where" and len(node.args) == 3:
            test, zero, val = node.args
            ok = self._mask_is_zero(test) and self._zero_tensor(zero)
            x = self.expr(val)
            return b.op("mask", [x]) if ok else b.unknown("where " + ast.unparse(test), [x])
        if name in ("T.apply_mask", "apply_mask") and len(node.args) >= 2:
            x = self.expr(node.args[0])
            rm = self._kw(node, "return_mask", 3)
            if rm is None or not (isinstance(rm, ast.Constant) and rm.value is False):
                return b.unknown("apply_mask returning the mask", [x])
            r = self.role_of(node.args[1])
            if r is MASK:
                return b.op("mask", [x])
            if r is MASKC:
                return b.op("maskC", [x])
            return b.unknown("apply_mask with " + ast.unparse(node.args[1]), [x])
        if name in ("T.apply_padding", "apply_padding") and node.args:
            return b.op("pad", [self.expr(node.args[0])])
        if name == "complex_dot_product" and len(node.args) == 3:
            a, c = self.expr(node.args[0]), self.expr(node.args[1])
            return b.op("dot", [a, c]) if self._is(node.args[2], DIM) else b.unknown("dot dim", [a, c])
        if name == "complex_division" and len(node.args) == 2:
            return b.op("cdiv", [self.expr(node.args[0]), self.expr(node.args[1])])
        if name.startswith("self.") and (name[5:] in _INLINE_METHODS or name[5:].startswith("_")):
            try:
                fn = self.info.method(name[5:])
            except Untranslatable:
                return b.unknown(name, [])
            static = any(ast.unparse(d).endswith("staticmethod") for d in fn.decorator_list)
            return self.inline(fn, node, skip_self=not static)
        if name in _INLINE_HELPERS or (name.startswith("_") and "." not in name):
            try:
                fn = find_function(self.info.tree, name)
            except Untranslatable:
                return b.unknown(name, [])
            return self.inline(fn, node, skip_self=False)
        return b.unknown(name, [])

    def inline(self, fn: ast.FunctionDef, call: ast.Call, skip_self: bool) -> int:
        if self.depth > 4:
            raise Untranslatable("inlining too deep")
        params = [a.arg for a in fn.args.args][1 if skip_self else 0:]
        bound: dict[str, ast.AST] = {}
        if len(call.args) > len(params):
            raise Untranslatable(f"call `{ast.unparse(call)[:60]}` has too many arguments")
        for p_, a in zip(params, call.args):
            bound[p_] = a
        for k in call.keywords:
            if k.arg not in params or k.arg in bound:
                raise Untranslatable(f"call `{ast.unparse(call)[:60]}`: keyword {k.arg}")
            bound[k.arg] = k.value
        if set(bound) != set(params):
            raise Untranslatable(f"call `{ast.unparse(call)[:60]}` does not bind all of {params}")
        env = {}
        for p_ in params:
            r = self.role_of(bound[p_])
            env[p_] = r if r is not None else self.expr(bound[p_])
        sub = Tr(self.info, self.b, env, self.COIL, self.SPATIAL)
        sub.depth = self.depth + 1
        sub.update, sub.branches = self.update, self.branches
        out = sub.block(fn.body)
        if out is None:
            raise Untranslatable(f"`{fn.name}` has no return")
        return out

    # ---- statements (straight-line)
    def stmt(self, st: ast.stmt):
        """returns the node of a `return`, else None"""
        if isinstance(st, ast.Expr) and isinstance(st.value, ast.Constant):
            return None                                                          # docstring
        if isinstance(st, ast.Return) and st.value is not None:
            return self.expr(st.value)
        if isinstance(st, ast.Assign) and len(st.targets) == 1 and isinstance(st.targets[0], ast.Name):
            tgt = st.targets[0].id
            if self._zero_tensor(st.value):
                self.env[tgt] = ZERO
                return None
            if self._mask_is_zero(st.value):
                self.env[tgt] = MASKZERO
                return None
            role = self._index_role(st.value)
            if role is not None:
                self.env[tgt] = role
                return None
            r = self.role_of(st.value)
            self.env[tgt] = r if r is not None else self.expr(st.value)
            return None
        if isinstance(st, ast.If) and self._update_test(st.test) is not None:
            # static dispatch on `self.bk_update_type` (if / elif / else chain or early returns): one decision tree
            nm = self._update_test(st.test)
            self.branches.append(nm)
            if self.update is None:
                raise Untranslatable("branch on bk_update_type outside a specialised translation")
            for s_ in (st.body if nm == self.update else st.orelse):
                r = self.stmt(s_)
                if r is not None:
                    return r
            return None
        if isinstance(st, ast.If):
            t = ast.unparse(st.test)
            # `if sensitivity_map is not None:` — the map is always given (it is dereferenced above)
            if (isinstance(st.test, ast.Compare) and self._is(st.test.left, SENS)
                    and isinstance(st.test.ops[0], ast.IsNot)):
                for s in st.body:
                    r = self.stmt(s)
                    if r is not None:
                        return r
                return None
            raise Untranslatable(f"`if {t}`")
        raise Untranslatable(f"statement `{ast.unparse(st)[:60]}`")

    def _update_test(self, test: ast.AST):
        if (isinstance(test, ast.Compare) and len(test.ops) == 1 and isinstance(test.ops[0], ast.Eq)
                and ast.unparse(test.left) == "self.bk_update_type"):
            c = test.comparators[0]
            v = c.value if isinstance(c, ast.Constant) else (c.attr if isinstance(c, ast.Attribute) and ast.unparse(c.value) == "CGUpdateType" else None)
            if isinstance(v, str) and v.upper() in UPDATES:
                return v.upper()
        return None

    def _index_role(self, node: ast.AST):
        """DIM (all axes but batch and complex) / SHAPE ([N, 1, …, 1, 2]) when the expression is index arithmetic on the
        rank / shape of a tensor parameter that evaluates to exactly that for ranks 3..6 — however it is spelled"""
        names = {n.id for n in ast.walk(node) if isinstance(n, ast.Name)} - {"torch", "len", "range", "list", "tuple", "int", "_"}
        tens = [n for n in names if isinstance(self.env.get(n), (int, tuple)) and not isinstance(self.env.get(n), Role)]
        if len(tens) != 1 or names - set(tens) - {g.target.id for c in ast.walk(node) if isinstance(c, (ast.ListComp, ast.GeneratorExp))
                                                      for g in c.generators if isinstance(g.target, ast.Name)}:
            return None
        if not any(isinstance(n, ast.Attribute) and n.attr in ("ndim", "shape", "dim", "size") for n in ast.walk(node)):
            return None
        try:
            vals = [(_eval_index_expr(node, {tens[0]: _Stub([7] + [3] * (r - 2) + [2])}), r) for r in (3, 4, 5, 6)]
        except Exception:  # noqa: BLE001 - not index arithmetic
            return None
        if all(v == list(range(1, r - 1)) for v, r in vals):
            return DIM
        if all(v == [7] + [1] * (r - 2) + [2] for v, r in vals):
            return SHAPE
        return None

    def block(self, stmts) -> int | None:
        for st in stmts:
            r = self.stmt(st)
            if r is not None:
                return r
        return None


# ---- Lean rendering ---------------------------------------------------------------------------------
def _node(n) -> str:
    op, args = n
    o = f"(.{op})" if " " in op else f".{op}"
    return f"⟨{o}, [{', '.join(map(str, args))}]⟩"


def _nodes(ns) -> str:
    return "[" + ", ".join(_node(n) for n in ns) + "]"


def _plan(ns, outs) -> str:
    _understood(ns)
    return "{ nodes := " + _nodes(ns) + ", outs := [" + ", ".join(map(str, outs)) + "] }"


def _positional(fn: ast.FunctionDef) -> list[str]:
    return [a.arg for a in fn.args.args][1:]


# ---- the individual plans ---------------------------------------------------------------------------
def loglik_plan():
    info = ClassInfo(parse_file(REPO / RIM), "MRILogLikelihood")
    fn = info.method("forward")
    ps = _positional(fn)
    if len(ps) != 5:
        raise Untranslatable(f"forward has parameters {ps}")
    b = Builder([V, W, K])
    env = {ps[0]: ("param", 0), ps[1]: ("param", 1), ps[2]: SENS, ps[3]: MASK, ps[4]: ("param", 2)}
    tr = Tr(info, b, env)
    body = list(fn.body)
    # default handling of `loglikelihood_scaling`: `if s is None: s = torch.tensor([1.0], …)` in either polarity, the
    # not-None branch empty or a self-assignment
    default_one = False
    rest = []
    for st in body:
        if (isinstance(st, ast.If) and isinstance(st.test, ast.Compare) and isinstance(st.test.left, ast.Name)
                and st.test.left.id == ps[4] and len(st.test.ops) == 1 and isinstance(st.test.ops[0], (ast.IsNot, ast.Is))
                and ast.unparse(st.test.comparators[0]) == "None"):
            none_branch, given_branch = (st.body, st.orelse) if isinstance(st.test.ops[0], ast.Is) else (st.orelse, st.body)
            ok_given = all(isinstance(s, ast.Pass) or (isinstance(s, ast.Assign) and ast.unparse(s.targets[0]) == ps[4]
                                                       and ast.unparse(s.value) == ps[4]) for s in given_branch)
            ok_none = (len(none_branch) == 1 and isinstance(none_branch[0], ast.Assign)
                       and ast.unparse(none_branch[0].targets[0]) == ps[4]
                       and ast.unparse(none_branch[0].value).replace(" ", "").startswith(("torch.tensor([1.0]", "torch.ones(1")))
            if not (ok_given and ok_none):
                raise Untranslatable("unexpected default handling of loglikelihood_scaling")
            default_one = True
            continue
        rest.append(st)
    out = tr.block(rest)
    if out is None:
        raise Untranslatable("forward has no return")
    # the scaling is reshaped to (-1, 1, 1, 1, 1): per-sample values go on the BATCH axis (the plan treats reshape as layout).
    # Decided by EVALUATING the reshape arguments for maps of rank 5 and 6, however the tuple of ones is spelled.
    global _SCALING_BATCH_FIRST
    _SCALING_BATCH_FIRST = True
    aliases = {ps[4]}
    for n in ast.walk(fn):
        if isinstance(n, ast.Assign) and len(n.targets) == 1 and isinstance(n.targets[0], ast.Name):
            v = n.value
            if isinstance(v, ast.Call) and isinstance(v.func, ast.Attribute) and v.func.attr == "reshape" and \
                    isinstance(v.func.value, ast.Name) and v.func.value.id in aliases:
                aliases.add(n.targets[0].id)
                try:
                    for rank in (5, 6):
                        tup = ast.Tuple(elts=list(v.args), ctx=ast.Load())
                        got = _eval_index_expr(ast.fix_missing_locations(tup), {ps[2]: _Stub([3] * rank)})
                        if got != [-1] + [1] * (rank - 1):
                            _SCALING_BATCH_FIRST = False
                except Exception:  # noqa: BLE001 - not understood: no verdict
                    pass
    return b.nodes, [out], default_one


_SCALING_BATCH_FIRST = True


def method_plan(name: str, kinds: list[str], bind: list):
    info = ClassInfo(parse_file(REPO / CG), "ConjGrad")
    fn = info.method(name)
    ps = _positional(fn)
    if len(ps) != len(bind):
        raise Untranslatable(f"{name} has parameters {ps}")
    b = Builder(kinds)
    env = {p: v for p, v in zip(ps, bind)}
    out = Tr(info, b, env).block(fn.body)
    if out is None:
        raise Untranslatable(f"{name} has no return")
    return b.nodes, [out]


_UPD = {"FR": "FR", "PRP": "PRP", "DY": "DY", "BAN": "BAN"}


def cg_plans():
    info = ClassInfo(parse_file(REPO / CG), "ConjGrad")
    fn = info.method("cg")
    ps = _positional(fn)          # x, y, sensitivity_map, sampling_mask, lambd, z
    if len(ps) != 6:
        raise Untranslatable(f"cg has parameters {ps}")
    loops = [i for i, st in enumerate(fn.body) if isinstance(st, ast.For)]
    if len(loops) != 1:
        raise Untranslatable("cg: expected exactly one for loop")
    li = loops[0]
    loop: ast.For = fn.body[li]
    carried = ["x", "rk_old", "pk", "rk_norm_sq_old"]
    # --- before the loop
    b0 = Builder([V, W, K, V])
    env0 = {ps[0]: ("param", 0), ps[1]: ("param", 1), ps[2]: SENS, ps[3]: MASK, ps[4]: ("param", 2), ps[5]: ("param", 3)}
    tr0 = Tr(info, b0, env0)
    if tr0.block(fn.body[:li]) is not None:
        raise Untranslatable("cg: return before the loop")
    carried = [ps[0], "rk_old", "pk", "rk_norm_sq_old"]
    outs0 = []
    for nm in carried:
        if nm not in tr0.env:
            raise Untranslatable(f"cg: `{nm}` not defined before the loop")
        v = tr0.env[nm]
        outs0.append(b0.param(v[1]) if isinstance(v, tuple) else v)
    # --- control skeleton
    range_ok = ast.unparse(loop.iter).replace(" ", "") == "range(self.num_iters)" and not loop.orelse
    after = fn.body[li + 1:]
    returns_x = len(after) == 1 and isinstance(after[0], ast.Return) and ast.unparse(after[0].value) == ps[0]
    # --- loop body
    def fresh():
        b = Builder([V, V, V, K, K])
        env = {carried[0]: ("param", 0), carried[1]: ("param", 1), carried[2]: ("param", 2), carried[3]: ("param", 3),
               ps[2]: SENS, ps[3]: MASK, ps[4]: ("param", 4), "dim": DIM, "shape": SHAPE}
        return b, Tr(info, b, env)

    def _break_test(tr, test):
        """(is `<rr>.abs().sqrt().mean() < self.tol`, node of <rr>) — `torch.mean(…)` / `torch.sqrt(…)` spellings included"""
        if not (isinstance(test, ast.Compare) and len(test.ops) == 1 and isinstance(test.ops[0], ast.Lt)
                and ast.unparse(test.comparators[0]) == "self.tol"):
            return False, None
        chain, cur = [], test.left
        while True:
            if isinstance(cur, ast.Call) and isinstance(cur.func, ast.Attribute) and not cur.args and not cur.keywords \
                    and not (isinstance(cur.func.value, ast.Name) and cur.func.value.id == "torch"):
                chain.append(cur.func.attr)
                cur = cur.func.value
            elif isinstance(cur, ast.Call) and isinstance(cur.func, ast.Attribute) and isinstance(cur.func.value, ast.Name) \
                    and cur.func.value.id == "torch" and len(cur.args) == 1 and not cur.keywords:
                chain.append(cur.func.attr)
                cur = cur.args[0]
            else:
                break
        if chain != ["mean", "sqrt", "abs"] or not isinstance(cur, ast.Name) or cur.id not in tr.env:
            return False, None
        v = tr.env[cur.id]
        return True, (tr.b.param(v[1]) if isinstance(v, tuple) else v)

    def run(update: str):
        b, tr = fresh()
        tr.update = update
        break_after, break_ok, break_node = None, False, None
        x_assigned_at = None
        for i, st in enumerate(loop.body):
            if isinstance(st, ast.If) and len(st.body) == 1 and isinstance(st.body[0], ast.Break):
                break_after = i
                ok, break_node = _break_test(tr, st.test)
                break_ok = ok and not st.orelse
                continue
            if isinstance(st, ast.Assign) and ast.unparse(st.targets[0]) == carried[0] and x_assigned_at is None:
                x_assigned_at = i
            if tr.stmt(st) is not None:
                raise Untranslatable("cg: return inside the loop")
        outs = []
        for nm in carried:
            v = tr.env[nm]
            outs.append(b.param(v[1]) if isinstance(v, tuple) else v)
        # the test looks at the NEW squared residual norm: the value carried to the next pass as `rk_norm_sq_old`
        break_ok = bool(break_ok and break_node is not None and break_node == outs[3])
        tested = list(tr.branches)
        rest = [u for u in UPDATES if u not in tested]
        branches = tested + rest if len(rest) == 1 and len(set(tested)) == len(tested) else tested
        exits = sum(1 for n in ast.walk(loop) if isinstance(n, (ast.Break, ast.Continue, ast.Return, ast.Raise)))
        nloops = sum(1 for n in ast.walk(fn) if isinstance(n, (ast.For, ast.While, ast.AsyncFor)))
        # statements before the break that matter: x is updated before the test
        before = sorted({carried.index(ast.unparse(t)) for st_ in loop.body[:break_after if break_after is not None else 0]
                         for n_ in ast.walk(st_) if isinstance(n_, (ast.Assign, ast.AugAssign))
                         for t in (n_.targets if isinstance(n_, ast.Assign) else [n_.target]) if ast.unparse(t) in carried})
        shape = (range_ok, before if break_after is not None else [99], break_ok,
                 bool(returns_x and x_assigned_at is not None and break_after is not None and x_assigned_at < break_after),
                 branches, exits, nloops)
        return b.nodes, outs, shape

    bodies = {u: run(u) for u in _UPD}
    return (b0.nodes, outs0), bodies


# ---- EXTRA entry -------------------------------------------------------------------------------------
_FALLBACK = {
    "loglik_plan": "DataConsistency.loglikPlan", "a_star_plan": "DataConsistency.aStarPlan",
    "a_star_a_plan": "DataConsistency.aStarAPlan", "b_op_plan": "DataConsistency.bOpPlan",
    "cg_init_plan": "DataConsistency.cgInitPlan",
}


def _c19_extra():
    status = {}
    out = []
    # loglik
    try:
        ns, outs, default_one = loglik_plan()
        out.append(f"/-- translated from `{RIM}`:`MRILogLikelihood.forward` -/\ndef loglik_plan : Plan :=\n  {_plan(ns, outs)}\n"
                   f"/-- `loglikelihood_scaling` defaults to `torch.tensor([1.0])` -/\ndef loglik_default_scaling_is_one : Bool := "
                   f"{'true' if default_one else 'false'}\n"
                   "/-- `loglikelihood_scaling` is reshaped exactly once, to `(-1, 1, …, 1)`: a per-sample scaling lies on the batch axis -/\n"
                   f"def loglik_scaling_on_batch_axis : Bool := {'true' if _SCALING_BATCH_FIRST else 'false'}\n")
        status["loglik_plan"] = "translated"
    except Untranslatable as e:
        status["loglik_plan"] = f"skipped: {e}"
        out.append(f"/-- SKIPPED ({e}) -/\ndef loglik_plan : Plan := DataConsistency.loglikPlan\n"
                   "def loglik_default_scaling_is_one : Bool := true\ndef loglik_scaling_on_batch_axis : Bool := true\n")
    for lean, meth, kinds, bind in (
        ("a_star_plan", "_A_star_op", [W], [("param", 0), SENS, MASK]),
        ("a_star_a_plan", "_A_star_A_op", [V], [("param", 0), SENS, MASK]),
        ("b_op_plan", "B_op", [V, K], [("param", 0), SENS, MASK, ("param", 1)]),
    ):
        try:
            ns, outs = method_plan(meth, kinds, bind)
            out.append(f"/-- translated from `{CG}`:`ConjGrad.{meth}` -/\ndef {lean} : Plan :=\n  {_plan(ns, outs)}\n")
            status[lean] = "translated"
        except Untranslatable as e:
            status[lean] = f"skipped: {e}"
            out.append(f"/-- SKIPPED ({e}) -/\ndef {lean} : Plan := {_FALLBACK[lean]}\n")
    try:
        (n0, o0), bodies = cg_plans()
        init_txt = _plan(n0, o0)
        arms = "\n".join(f"  | .{u} => {_plan(ns, outs)}" for u, (ns, outs, _) in bodies.items())
        shapes_ = {u: s_ for u, (_, _, s_) in bodies.items()}
        if any(s_[:4] + s_[5:] != shapes_["FR"][:4] + shapes_["FR"][5:] for s_ in shapes_.values()):
            raise Untranslatable("cg: control skeleton differs between branches")
        out.append(f"/-- translated from `{CG}`:`ConjGrad.cg` (statements before the loop) -/\n"
                   f"def cg_init_plan : Plan :=\n  {init_txt}\n")
        out.append(f"/-- translated from `{CG}`:`ConjGrad.cg` (loop body per `bk_update_type`, helpers inlined) -/\n"
                   f"def cg_body_plan : Update → Plan\n{arms}\n")
        shapes = {u: s for u, (_, _, s) in bodies.items()}
        s0 = shapes["FR"]
        if any(s[:4] + s[5:] != s0[:4] + s0[5:] for s in shapes.values()):
            raise Untranslatable("cg: control skeleton differs between branches")
        # the dispatch order: the specialisation that falls through every test sees all of them (early returns included)
        branches = max((s[4] for s in shapes.values()), key=len)
        rng, brk, brk_ok, ret, _, exits, nloops = s0
        out.append("/-- control skeleton of `ConjGrad.cg` -/\ndef cg_loop_shape : LoopShape :=\n"
                   f"  {{ rangeNumIters := {'true' if rng else 'false'}, carriedBeforeBreak := [{', '.join(map(str, brk))}], "
                   f"breakTestOnRrNew := {'true' if brk_ok else 'false'}, returnsX := {'true' if ret else 'false'}, "
                   f"branches := [{', '.join('.' + x for x in branches)}], exits := {exits}, loops := {nloops} }}\n")
        status["cg_init_plan"] = status["cg_body_plan"] = status["cg_loop_shape"] = "translated"
    except Untranslatable as e:
        for k in ("cg_init_plan", "cg_body_plan", "cg_loop_shape"):
            status[k] = f"skipped: {e}"
        out.append(f"/-- SKIPPED ({e}) -/\ndef cg_init_plan : Plan := DataConsistency.cgInitPlan\n"
                   "def cg_body_plan : Update → Plan := DataConsistency.cgBodyPlan\n"
                   "def cg_loop_shape : LoopShape := DataConsistency.cgLoopShape\n")
    # forward(masked_kspace, S, mask, z, lambd) = cg(z, masked_kspace, S, mask, lambd, z)
    try:
        info = ClassInfo(parse_file(REPO / CG), "ConjGrad")
        fn = info.method("forward")
        ps = _positional(fn)
        rets = [st for st in fn.body if isinstance(st, ast.Return)]
        if len(ps) != 5 or len(rets) != 1 or not isinstance(rets[0].value, ast.Call):
            raise Untranslatable("forward: unexpected shape")
        call = rets[0].value
        if ast.unparse(call.func) != "self.cg" or call.keywords:
            raise Untranslatable("forward does not return self.cg(…)")
        idx = [ps.index(ast.unparse(a)) if ast.unparse(a) in ps else -1 for a in call.args]
        out.append("/-- `ConjGrad.forward`: positions (in forward's signature) of the arguments passed to `cg` -/\n"
                   f"def forward_call_args : List Int := [{', '.join(map(str, idx))}]\n")
        status["forward_call_args"] = "translated"
    except Untranslatable as e:
        status["forward_call_args"] = f"skipped: {e}"
        out.append(f"/-- SKIPPED ({e}) -/\ndef forward_call_args : List Int := [3, 0, 1, 2, 4, 3]\n")
    return "open DirectVerif.DataConsistency\n\n" + "\n".join(out), status


# =====================================================================================================
# Phase 2: the same physics inside the unrolled models — one plan per *site*
from ..gen import all_stmts  # noqa: E402

NN = "direct/nn/"


def _info(file: str, cls: str, base: ClassInfo | None = None) -> ClassInfo:
    return ClassInfo(parse_file(REPO / file), cls, base)


def _with_defaults(info: ClassInfo, fn: ast.FunctionDef) -> ClassInfo:
    """parameters with literal defaults (`coil_dim: int = 1`) resolve like constants"""
    info.defaults = {}
    args = fn.args.args
    for a, d in zip(args[len(args) - len(fn.args.defaults):], fn.args.defaults):
        try:
            info.defaults[a.arg] = ast.literal_eval(d)
        except (ValueError, SyntaxError):
            pass
    return info


def _assigns(fn, target: str) -> list[ast.Assign]:
    return [st for st in all_stmts(fn) if isinstance(st, ast.Assign) and len(st.targets) == 1
            and ast.unparse(st.targets[0]) == target]


def _nth(xs, n, what):
    if len(xs) <= n:
        raise Untranslatable(f"{what} #{n} not found")
    return xs[n]


def _calls(node: ast.AST, func_text: str) -> list[ast.Call]:
    """calls to `func_text` inside `node`, outermost first, in source order"""
    out = []

    def walk(n):
        if isinstance(n, ast.Call) and ast.unparse(n.func) == func_text:
            out.append(n)
        for c in ast.iter_child_nodes(n):
            walk(c)
    walk(node)
    return out


def _listcomp_elt(node: ast.AST, var: str) -> ast.AST:
    for n in ast.walk(node):
        if isinstance(n, ast.ListComp) and len(n.generators) == 1 and ast.unparse(n.generators[0].target) == var:
            return n.elt
    raise Untranslatable(f"list comprehension over `{var}` not found")


class SiteTr:
    def __init__(self, info, fn, kinds, bind, coil=None, spatial=None):
        self.info = _with_defaults(info, fn)
        self.b = Builder(kinds)
        coil = coil if coil is not None else info.consts.get("_coil_dim", info.defaults.get("coil_dim", 1))
        spatial = spatial if spatial is not None else info.consts.get("_spatial_dims", info.defaults.get("spatial_dims", (2, 3)))
        self.expected_spatial = tuple(spatial)
        self.tr = Tr(self.info, self.b, dict(bind), coil, spatial)

    def value(self, node) -> int:
        return self.tr.expr(node)

    def run(self, stmts):
        for st in stmts:
            if self.tr.stmt(st) is not None:
                raise Untranslatable("unexpected return")

    def plan(self, out: int):
        return self.b.nodes, [out]


P0, P1, P2 = ("param", 0), ("param", 1), ("param", 2)


def _whole_method(file, cls, meth, kinds, bind, base=None, want_spatial=(2, 3)):
    info = _info(file, cls, base)
    fn = info.method(meth)
    st = SiteTr(info, fn, kinds, bind)
    if st.expected_spatial != tuple(want_spatial):
        raise Untranslatable(f"{cls}: spatial dims {st.expected_spatial}")
    out = st.tr.block(fn.body)
    if out is None:
        raise Untranslatable(f"{cls}.{meth} has no return")
    return st.plan(out)


def _engine_base():
    return _info(NN + "mri_models.py", "MRIModelEngine")


def _site_table():
    """[(lean name, human description, thunk -> (nodes, outs), fallback model plan)]"""
    sites = []

    def add(name, descr, thunk, fallback):
        sites.append((name, descr, thunk, fallback))

    # ---- EndToEndVarNetBlock
    def varnet(which):
        info = _info(NN + "varnet/varnet.py", "EndToEndVarNetBlock")
        fn = info.method("forward")
        bind = {"current_kspace": P0, "masked_kspace": P1, "sampling_mask": MASK, "sensitivity_map": SENS}
        if which == "softdc":
            st = SiteTr(info, fn, [W, W], bind)
            return st.plan(st.value(_nth(_assigns(fn, "kspace_error"), 0, "kspace_error").value))
        regs = _assigns(fn, "regularization_term")
        if which == "reg_in":       # torch.split(current_kspace, 2, complex_dim) of a size-2 axis is the tensor itself
            st = SiteTr(info, fn, [W, W], {**bind, "kspace": P0})
            return st.plan(st.value(_listcomp_elt(_nth(regs, 0, "regularization_term").value, "kspace")))
        st = SiteTr(info, fn, [V], {"image": P0, "sampling_mask": MASK, "sensitivity_map": SENS})
        return st.plan(st.value(_listcomp_elt(_nth(regs, 2, "regularization_term").value, "image")))

    add("site_varnet_softdc", "EndToEndVarNetBlock.forward: kspace_error", lambda: varnet("softdc"), "softDCPlan")
    add("site_varnet_reg_in", "EndToEndVarNetBlock.forward: image fed to the regulariser", lambda: varnet("reg_in"), "sensePlan")
    add("site_varnet_reg_out", "EndToEndVarNetBlock.forward: regulariser output to k-space", lambda: varnet("reg_out"), "feOpPlan")

    # ---- RecurrentVarNetBlock
    def rvn(which):
        info = _info(NN + "recurrentvarnet/recurrentvarnet.py", "RecurrentVarNetBlock")
        fn = info.method("forward")
        bind = {"current_kspace": P0, "masked_kspace": P1, "sampling_mask": MASK, "sensitivity_map": SENS}
        if which == "softdc":
            st = SiteTr(info, fn, [W, W], bind)
            return st.plan(st.value(_nth(_assigns(fn, "kspace_error"), 0, "kspace_error").value))
        rec = _assigns(fn, "recurrent_term")
        if which == "reg_in":
            st = SiteTr(info, fn, [W, W], bind)
            return st.plan(st.value(_nth(rec, 0, "recurrent_term").value))
        st = SiteTr(info, fn, [V], {"recurrent_term": P0, "sampling_mask": MASK, "sensitivity_map": SENS})
        return st.plan(st.value(_nth(rec, 2, "recurrent_term").value))

    add("site_rvn_softdc", "RecurrentVarNetBlock.forward: kspace_error", lambda: rvn("softdc"), "softDCPlan")
    add("site_rvn_reg_in", "RecurrentVarNetBlock.forward: image fed to the recurrent unit", lambda: rvn("reg_in"), "senseFirstPlan")
    add("site_rvn_reg_out", "RecurrentVarNetBlock.forward: recurrent output to k-space", lambda: rvn("reg_out"), "feOpPlan")

    # ---- VSharpNet / VSharpNet3D
    def vsharp(cls, spatial, which):
        info = _info(NN + "vsharp/vsharp.py", cls)
        fn = info.method("forward")
        bind = {"x": P0, "masked_kspace": P1, "sampling_mask": MASK, "sensitivity_map": SENS}
        st = SiteTr(info, fn, [V, W], bind)
        if st.expected_spatial != spatial:
            raise Untranslatable(f"{cls}: spatial dims {st.expected_spatial}")
        if which == "init":
            return st.plan(st.value(_nth(_assigns(fn, "x"), 0, "x").value))
        dcs = _assigns(fn, "dc")
        if len(dcs) != 3:
            raise Untranslatable(f"{cls}: {len(dcs)} assignments to dc")
        st.run(dcs)
        return st.plan(st.tr.env["dc"])

    add("site_vsharp_dc", "VSharpNet.forward: dc (ADMM x-step gradient)", lambda: vsharp("VSharpNet", (2, 3), "dc"), "dcGradAfterPlan")
    add("site_vsharp3d_dc", "VSharpNet3D.forward: dc, spatial dims (3, 4)", lambda: vsharp("VSharpNet3D", (3, 4), "dc"), "dcGradAfterPlan")
    add("site_vsharp_init", "VSharpNet.forward: SENSE initialisation", lambda: vsharp("VSharpNet", (2, 3), "init"), "senseYPlan")

    # ---- models with _forward_operator / _backward_operator methods
    for tag, file, cls in (("jointic", "jointicnet/jointicnet.py", "JointICNet"), ("iterdual", "iterdualnet/iterdualnet.py", "IterDualNet"),
                           ("lpd", "lpd/lpd.py", "LPDNet"), ("xpd", "crossdomain/crossdomain.py", "CrossDomainNetwork")):
        add(f"site_{tag}_fwd", f"{cls}._forward_operator",
            lambda file=file, cls=cls: _whole_method(NN + file, cls, "_forward_operator", [V],
                                                     {"image": P0, "sampling_mask": MASK, "sensitivity_map": SENS}), "aOpPlan")
        add(f"site_{tag}_bwd", f"{cls}._backward_operator",
            lambda file=file, cls=cls: _whole_method(NN + file, cls, "_backward_operator", [W],
                                                     {"kspace": P0, "sampling_mask": MASK, "sensitivity_map": SENS}), "aStarPlan")
    add("site_engine_fwd", "MRIModelEngine._forward_operator",
        lambda: _whole_method(NN + "mri_models.py", "MRIModelEngine", "_forward_operator", [V],
                              {"image": P0, "sampling_mask": MASK, "sensitivity_map": SENS}), "aOpPlan")
    add("site_engine_bwd", "MRIModelEngine._backward_operator",
        lambda: _whole_method(NN + "mri_models.py", "MRIModelEngine", "_backward_operator", [W],
                              {"kspace": P0, "sampling_mask": MASK, "sensitivity_map": SENS}), "aStarPlan")

    def jointic(which):
        info = _info(NN + "jointicnet/jointicnet.py", "JointICNet")
        fn = info.method("forward")
        bind = {"input_image": P0, "masked_kspace": P1, "sampling_mask": MASK, "sensitivity_map": SENS}
        st = SiteTr(info, fn, [V, W], bind)
        if which == "image":
            a = _nth(_assigns(fn, "step_image"), 0, "step_image")
            return st.plan(st.value(_nth(_calls(a.value, "self._backward_operator"), 0, "self._backward_operator(...)")))
        a = _nth(_assigns(fn, "step_sensitivity_map"), 0, "step_sensitivity_map")
        return st.plan(st.value(_nth(_calls(a.value, "T.complex_multiplication"), 0, "T.complex_multiplication(...)")))

    add("site_jointic_image_dc", "JointICNet.forward: data term of step_image", lambda: jointic("image"), "dcGradTwicePlan")
    add("site_jointic_sens_grad", "JointICNet.forward: data term of step_sensitivity_map", lambda: jointic("sens"), "sensGradPlan")

    def iterdual(which):
        info = _info(NN + "iterdualnet/iterdualnet.py", "IterDualNet")
        fn = info.method("forward")
        bind = {"x": P0, "masked_kspace": P1, "sampling_mask": MASK, "sensitivity_map": SENS}
        st = SiteTr(info, fn, [V, W], bind)
        if which == "dc":
            return st.plan(st.value(_nth(_assigns(fn, "dc_out"), 0, "dc_out").value))
        return st.plan(st.value(_nth(_assigns(fn, "x"), 0, "x").value))

    add("site_iterdual_dc", "IterDualNet.forward: dc_out", lambda: iterdual("dc"), "dcGradTwicePlan")
    add("site_iterdual_init", "IterDualNet.forward: SENSE initialisation", lambda: iterdual("init"), "senseYPlan")

    # ---- MRIVarSplitNet
    def varsplit():
        info = _info(NN + "varsplitnet/varsplitnet.py", "MRIVarSplitNet")
        fn = info.method("forward")
        st = SiteTr(info, fn, [V, W, K], {"image": P0, "masked_kspace": P1, "scaling_factor": P2, "sampling_mask": MASK,
                                           "sensitivity_map": SENS})
        seq = []
        for name in ("mul", "mr_forward", "error", "mr_backward", "dc"):
            a = _assigns(fn, name)
            if len(a) != 1:
                raise Untranslatable(f"MRIVarSplitNet: {len(a)} assignments to {name}")
            seq.append(a[0])
        if [s_.lineno for s_ in seq] != sorted(s_.lineno for s_ in seq):
            raise Untranslatable("MRIVarSplitNet: DC statements out of order")
        st.run(seq)
        return st.plan(st.tr.env["dc"])

    add("site_varsplit_dc", "MRIVarSplitNet.forward: dc", varsplit, "loglikCorePlan")

    # ---- KIKINet
    def kiki(which):
        info = _info(NN + "kikinet/kikinet.py", "KIKINet")
        fn = info.method("forward")
        if which == "image":
            st = SiteTr(info, fn, [W], {"kspace": P0, "sampling_mask": MASK, "sensitivity_map": SENS})
            return st.plan(st.value(_nth(_assigns(fn, "image"), 0, "image").value))
        st = SiteTr(info, fn, [V], {"image": P0, "sampling_mask": MASK, "sensitivity_map": SENS})
        ks = [a for a in _assigns(fn, "kspace") if "forward_operator" in ast.unparse(a.value)]
        return st.plan(st.value(_nth(ks, 0, "kspace = …forward_operator(...)").value))

    add("site_kiki_image", "KIKINet.forward: k-space to image", lambda: kiki("image"), "aStarPlan")
    add("site_kiki_kspace", "KIKINet.forward: image to k-space", lambda: kiki("kspace"), "aOpPlan")

    # ---- CIRIM (RIMBlock)
    def cirim(which):
        info = _info(NN + "cirim/cirim.py", "RIMBlock")
        fn = info.method("forward")
        bind = {"current_prediction": P0, "masked_kspace": P1, "x": P2, "sampling_mask": MASK, "sensitivity_map": SENS}
        st = SiteTr(info, fn, [W, W, V], bind)
        if which == "softdc":
            return st.plan(st.value(_nth(_assigns(fn, "soft_dc"), 0, "soft_dc").value))
        if which == "image":
            a = _nth(_assigns(fn, "intermediate_image"), 0, "intermediate_image")
            if not isinstance(a.value, ast.IfExp):
                raise Untranslatable("intermediate_image is not a conditional expression")
            return st.plan(st.value(a.value.body))
        st.run([_nth(_assigns(fn, "soft_dc"), 0, "soft_dc")])
        return st.plan(st.value(_listcomp_elt(_nth(_assigns(fn, "current_kspace"), 0, "current_kspace").value, "x")))

    add("site_cirim_softdc", "RIMBlock.forward (CIRIM): soft_dc", lambda: cirim("softdc"), "softDCPlan")
    add("site_cirim_image", "RIMBlock.forward (CIRIM): current estimate", lambda: cirim("image"), "sensePlan")
    add("site_cirim_kspace", "RIMBlock.forward (CIRIM): returned k-space", lambda: cirim("kspace"), "cirimKspacePlan")

    # ---- engines: hard data consistency
    def ssl(cls, file, base_cls, base_file, nth=0):
        base = _info(NN + base_file, base_cls, _engine_base()) if base_cls else _engine_base()
        info = _info(NN + file, cls, base)
        fn = info.method("_do_iteration")
        bind = {"output_image": P0, "output_images[-1]": P0, "kspace": P1, "mask": MASK, "data['sensitivity_map']": SENS}
        st = SiteTr(info, fn, [V, W], bind)
        if file.endswith("ssl/mri_models.py"):
            a = [x for x in _assigns(fn, "output_kspace") if "_forward_operator" in ast.unparse(x.value)]
            b_ = [x for x in _assigns(fn, "output_kspace") if "apply_padding" in ast.unparse(x.value)]
            st.run([_nth(a, 0, "output_kspace = self._forward_operator(...)"), _nth(b_, 0, "output_kspace = T.apply_padding(...)")])
            return st.plan(st.tr.env["output_kspace"])
        a = [x for x in _assigns(fn, "output_kspace") if "apply_padding" in ast.unparse(x.value)]
        return st.plan(st.value(_nth(a, nth, "output_kspace = T.apply_padding(...)").value))

    add("site_ssl_harddc", "SSLMRIModelEngine._do_iteration: data consistency",
        lambda: ssl("SSLMRIModelEngine", "ssl/mri_models.py", None, None), "hardDCPlan")
    add("site_jssl_harddc", "JSSLMRIModelEngine._do_iteration: data consistency",
        lambda: ssl("JSSLMRIModelEngine", "ssl/mri_models.py", "SSLMRIModelEngine", "ssl/mri_models.py"), "hardDCPlan")
    for nth in (0, 1):
        add(f"site_vsharp_ssl_harddc{nth}", f"VSharpNetSSLEngine._do_iteration: data consistency #{nth}",
            lambda nth=nth: ssl("VSharpNetSSLEngine", "vsharp/vsharp_engine.py", "SSLMRIModelEngine", "ssl/mri_models.py", nth), "hardDCPlan")
    add("site_vsharp_jssl_harddc0", "VSharpNetJSSLEngine._do_iteration: data consistency #0",
        lambda: ssl("VSharpNetJSSLEngine", "vsharp/vsharp_engine.py", "JSSLMRIModelEngine", "ssl/mri_models.py", 0), "hardDCPlan")

    def vsharp_engine(cls):
        info = _info(NN + "vsharp/vsharp_engine.py", cls, _engine_base())
        fn = info.method("forward_function")
        bind = {"output_image": P0, "data['masked_kspace']": P1, "data['sampling_mask']": MASK, "data['sensitivity_map']": SENS}
        st = SiteTr(info, fn, [V, W], bind)
        return st.plan(st.value(_nth(_assigns(fn, "output_kspace"), 0, "output_kspace").value))

    add("site_vsharp_engine_harddc", "VSharpNetEngine.forward_function: data consistency",
        lambda: vsharp_engine("VSharpNetEngine"), "hardDCPadPlan")
    add("site_vsharp3d_engine_harddc", "VSharpNet3DEngine.forward_function: data consistency, spatial dims (3, 4)",
        lambda: vsharp_engine("VSharpNet3DEngine"), "hardDCPadPlan")
    return sites


def _call_arg_positions(file, cls, meth, callee_text, nth=0):
    """names of the positional arguments of the nth call to `callee_text` in `cls.meth`"""
    info = _info(file, cls)
    fn = info.method(meth)
    c = _nth(_calls(fn, callee_text), nth, f"call to {callee_text}")
    if c.keywords:
        raise Untranslatable("keyword arguments")
    return [ast.unparse(a) for a in c.args]


def _sites_extra():
    out, status = [], {}
    for name, descr, thunk, fallback in _site_table():
        try:
            ns, outs = thunk()
            out.append(f"/-- translated: {descr} -/\ndef {name} : Plan :=\n  {_plan(ns, outs)}\n")
            status[name] = "translated"
        except Untranslatable as e:
            status[name] = f"skipped: {e}"
            out.append(f"/-- SKIPPED ({e}): {descr} -/\ndef {name} : Plan := DataConsistency.{fallback}\n")
    # how the RIM / CIRIM call the likelihood-gradient block
    for name, file, cls, meth in (("rim_llg_call_args", NN + "rim/rim.py", "RIM", "forward"),
                                  ("cirim_llg_call_args", NN + "cirim/cirim.py", "RIMBlock", "forward")):
        want = ["intermediate_image", "masked_kspace", "sensitivity_map", "sampling_mask"]
        try:
            got = _call_arg_positions(file, cls, meth, "self.grad_likelihood")
            ok = got[:4] == want and len(got) in (4, 5)
            out.append(f"/-- `{cls}.{meth}` calls `self.grad_likelihood({', '.join(got)})` -/\n"
                       f"def {name}_ok : Bool := {'true' if ok else 'false'}\n")
            status[name] = "translated"
        except Untranslatable as e:
            status[name] = f"skipped: {e}"
            out.append(f"/-- SKIPPED ({e}) -/\ndef {name}_ok : Bool := true\n")
    return "\n".join(out), status


def _callers_extra():
    """call sites of the conjugate-gradient block outside the anchored file: `ConjGradNet`"""
    out, status = [], {}
    file = NN + "conjgradnet/conjgradnet.py"
    # (1) every `self.conj_grad(...)` call in ConjGradNet.forward: positional (masked_kspace, sensitivity_map, sampling_mask, z, self.mu)
    try:
        info = _info(file, "ConjGradNet")
        fn = info.method("forward")
        calls = _calls(fn, "self.conj_grad")
        rows = []
        for c in calls:
            if c.keywords:
                cg_fn = _info(CG, "ConjGrad").method("forward")
                names = _positional(cg_fn)
                bound = {n: ast.unparse(a) for n, a in zip(names, c.args)}
                for k in c.keywords:
                    if k.arg is None or k.arg in bound or k.arg not in names:
                        raise Untranslatable(f"keyword {k.arg}")
                    bound[k.arg] = ast.unparse(k.value)
                if set(bound) != set(names):
                    raise Untranslatable("call does not bind all parameters")
                rows.append([bound[n] for n in names])
            else:
                rows.append([ast.unparse(a) for a in c.args])
        lean_rows = ", ".join("[" + ", ".join('"' + a.replace('"', "'") + '"' for a in r) + "]" for r in rows)
        out.append("/-- arguments (in the order of `ConjGrad.forward`'s signature) of every `self.conj_grad(…)` call in "
                   "`ConjGradNet.forward` -/\n"
                   f"def conjgradnet_cg_calls : List (List String) := [{lean_rows}]\n")
        status["conjgradnet_cg_calls"] = "translated"
    except Untranslatable as e:
        status["conjgradnet_cg_calls"] = f"skipped: {e}"
        out.append(f"/-- SKIPPED ({e}) -/\ndef conjgradnet_cg_calls : List (List String) := DataConsistency.conjGradNetCalls\n")
    # (2) the constructor call `ConjGrad(forward_operator, backward_operator, cg_iters, cg_tol, cg_param_update_type)`
    try:
        info = _info(file, "ConjGradNet")
        init = info.method("__init__")
        calls = _calls(init, "ConjGrad")
        if len(calls) != 1:
            raise Untranslatable(f"{len(calls)} ConjGrad(...) calls in ConjGradNet.__init__")
        c = calls[0]
        cg_init = _info(CG, "ConjGrad").method("__init__")
        names = _positional(cg_init)
        bound = {n: ast.unparse(a) for n, a in zip(names, c.args)}
        for k in c.keywords:
            if k.arg is None or k.arg in bound or k.arg not in names:
                raise Untranslatable(f"keyword {k.arg}")
            bound[k.arg] = ast.unparse(k.value)
        row = [bound.get(n, "<default>") for n in names]
        out.append("/-- what `ConjGradNet.__init__` passes for each parameter of `ConjGrad.__init__` (in its signature order) -/\n"
                   "def conjgradnet_ctor_args : List String := ["
                   + ", ".join('"' + a.replace('"', "'") + '"' for a in row) + "]\n"
                   f"def conjgrad_ctor_params : List String := [{', '.join(chr(34) + n + chr(34) for n in names)}]\n")
        status["conjgradnet_ctor_args"] = "translated"
    except Untranslatable as e:
        status["conjgradnet_ctor_args"] = f"skipped: {e}"
        out.append(f"/-- SKIPPED ({e}) -/\ndef conjgradnet_ctor_args : List String := DataConsistency.conjGradNetCtorArgs\n"
                   "def conjgrad_ctor_params : List String := DataConsistency.conjGradCtorParams\n")
    # (3) `ConjGradNet.init_z` SENSE branch: R F^H y
    try:
        info = _info(file, "ConjGradNet")
        fn = info.method("init_z")
        st = SiteTr(info, fn, [W], {"kspace": P0, "sensitivity_map": SENS}, coil=1, spatial=(2, 3))
        st.info.defaults.update({"coil_dim": 1, "spatial_dims": (2, 3)})
        target = None
        for n in ast.walk(fn):
            if isinstance(n, ast.If) and "sense" in ast.unparse(n.test):
                for b_ in n.body:
                    if isinstance(b_, ast.Assign) and ast.unparse(b_.targets[0]) == "image":
                        target = b_.value
        if target is None:
            raise Untranslatable("SENSE branch of init_z not found")
        # `backward_operator(...)` is a parameter here, not `self.backward_operator`
        class _R(ast.NodeTransformer):
            def visit_Call(self, node):
                self.generic_visit(node)
                if isinstance(node.func, ast.Name) and node.func.id == "backward_operator":
                    node.func = ast.Attribute(value=ast.Name(id="self", ctx=ast.Load()), attr="backward_operator", ctx=ast.Load())
                return node
        target = ast.fix_missing_locations(_R().visit(ast.parse(ast.unparse(target), mode="eval").body))
        ns, outs = st.plan(st.value(target))
        out.append(f"/-- translated: ConjGradNet.init_z, SENSE initialisation of `z` -/\ndef site_conjgradnet_init : Plan :=\n  {_plan(ns, outs)}\n")
        status["site_conjgradnet_init"] = "translated"
    except Untranslatable as e:
        status["site_conjgradnet_init"] = f"skipped: {e}"
        out.append(f"/-- SKIPPED ({e}) -/\ndef site_conjgradnet_init : Plan := DataConsistency.sensePlan\n")
    return "\n".join(out), status


def _state_extra():
    from . import c19_state

    try:
        return c19_state.state_tables()
    except Untranslatable as e:
        return f"/-- SKIPPED ({e}) -/\n" + c19_state.STATE_FALLBACK, {"dc_state_writes": f"skipped: {e}"}


def _c19_all():
    t1, s1 = _c19_extra()
    t2, s2 = _sites_extra()
    t3, s3 = _callers_extra()
    t4, s4 = _state_extra()
    s1.update(s2)
    s1.update(s3)
    s1.update(s4)
    return "\n".join([t1, t2, t3, t4]), s1


EXTRA["C19"] = _c19_all

# importing DirectVerif.Model.DataConsistency in the generated file
from ..gen import Kernel, register  # noqa: E402

register("C19", [Kernel("coil_dim", CG, "ConjGrad.__init__", [], "(1 : Int)",
                        build=lambda k, fn: _const_kernel(k, fn, "_coil_dim"),
                        imports=("DirectVerif.Model.DataConsistency",))])


def _const_kernel(k, fn, attr):
    for st in fn.body:
        if (isinstance(st, ast.Assign) and ast.unparse(st.targets[0]) == f"self.{attr}"
                and isinstance(st.value, ast.Constant) and isinstance(st.value.value, int)):
            return f"def {k.name} : Int := ({st.value.value} : Int)\n"
    raise Untranslatable(f"`self.{attr} = <int>` not found")
