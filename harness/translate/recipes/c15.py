"""C15 — translation of the checkpointing code.

* `saveStmts`: the statement table of `Checkpointer.save` (which file is opened for writing, what is written into
  it, which `os.replace` follows, in which order) as Lean data (`Ckpt.Stmt`);
* `start_iter`, `kill_label`, `kill_guard`, `ckpt_label`, `ckpt_guard`: the integer arithmetic of resume, of the kill
  path and of the checkpoint interval in `direct/engine.py`;
* `warmup_factor_at`, `multistep_lr`, `cosine_lr`: the closed forms of `direct/data/lr_scheduler.py` over the rationals
  (Python floats are read as the rationals they denote; `math.cos(math.pi * a / b)` is the uninterpreted `cosPi a b`).
"""
from __future__ import annotations

import ast
from fractions import Fraction

from ..gen import EXTRA, REPO, Kernel, Untranslatable, assign_value, find_assign, register
from ..pyexpr import ExprTr, emit_def, find_function, parse_file

CK = "direct/checkpointer.py"
E = "direct/engine.py"
LR = "direct/data/lr_scheduler.py"
TRAIN = ("DirectVerif.Model.Train",)


# --------------------------------------------------------------------------------------------------
# statement table of Checkpointer.save
def _render(node: ast.AST) -> str | None:
    """text of a path literal / f-string with `{…}` for the formatted values"""
    if isinstance(node, ast.Constant) and isinstance(node.value, str):
        return node.value
    if isinstance(node, ast.JoinedStr):
        out = ""
        for v in node.values:
            if isinstance(v, ast.Constant):
                out += str(v.value)
            else:
                out += "{" + ast.unparse(v.value) + "}"
        return out
    return None


def _kind_of_text(t: str) -> str:
    if t == "model_{iteration}.pt":
        return ".model"
    if t == "model_{iteration}.pt.tmp":
        return ".modelTmp"
    if t == "last_model.txt":
        return ".last"
    if t == "last_model.txt.tmp":
        return ".lastTmp"
    raise Untranslatable(f"unknown file name `{t}`")


def path_kind(node: ast.AST, env: dict[str, ast.AST], depth: int = 0) -> str:
    if depth > 8:
        raise Untranslatable("path expression too deep")
    t = _render(node)
    if t is not None:
        return _kind_of_text(t)
    if isinstance(node, ast.Name):
        if node.id not in env:
            raise Untranslatable(f"path variable `{node.id}` is not a local of save")
        return path_kind(env[node.id], env, depth + 1)
    if isinstance(node, ast.BinOp) and isinstance(node.op, ast.Div):     # directory / name
        return path_kind(node.right, env, depth + 1)
    if isinstance(node, ast.Call) and ast.unparse(node.func) in ("str", "pathlib.Path", "Path", "os.fspath") and node.args:
        return path_kind(node.args[0], env, depth + 1)
    raise Untranslatable(f"cannot resolve path `{ast.unparse(node)}`")


_DELETES = ("os.remove", "os.unlink", "os.rmdir", "shutil.rmtree", "os.removedirs")
_WRITES = ("os.replace", "os.rename", "shutil.move", "shutil.copy", "shutil.copyfile", "torch.save")


def _deletes_files(fn: ast.AST, cls: ast.ClassDef | None, depth: int = 0) -> bool:
    """does this function (or a method of the same class it calls) delete files?  Any other file-writing operation in a
    helper is not understood."""
    found = False
    for n in ast.walk(fn):
        if isinstance(n, ast.Call):
            f = ast.unparse(n.func)
            if f in _DELETES or (isinstance(n.func, ast.Attribute) and n.func.attr in ("unlink", "rmdir")):
                found = True
            elif f in _WRITES or (isinstance(n.func, ast.Attribute) and n.func.attr in ("write_text", "write_bytes", "rename", "replace", "touch")) \
                    or (f == "open" and any(isinstance(a, ast.Constant) and isinstance(a.value, str) and set(a.value) & set("wax+")
                                            for a in list(n.args[1:2]) + [k.value for k in n.keywords if k.arg == "mode"])):
                raise Untranslatable(f"file operation `{ast.unparse(n)[:60]}` inside a helper of save")
            elif f.startswith("self.") and f.count(".") == 1 and cls is not None and depth < 3:
                m = next((b for b in cls.body if isinstance(b, ast.FunctionDef) and b.name == f[5:]), None)
                if m is not None and m is not fn and _deletes_files(m, cls, depth + 1):
                    found = True
    return found


def _tmp_of(node: ast.AST, env, depth=0) -> str | None:
    """kind of `X.with_name(X.name + ".tmp")` / `X.with_suffix(X.suffix + ".tmp")` / `X.parent / (X.name + ".tmp")` /
    `Path(str(X) + ".tmp")`: the temporary next to X"""
    t = ast.unparse(node).replace(" ", "")
    import re as _re
    for pat in (r"^(\w+)\.with_name\(\1\.name\+'\.tmp'\)$", r"^(\w+)\.with_suffix\(\1\.suffix\+'\.tmp'\)$",
                r"^(\w+)\.parent/\(\1\.name\+'\.tmp'\)$", r"^(?:pathlib\.)?Path\(str\((\w+)\)\+'\.tmp'\)$",
                r"^str\((\w+)\)\+'\.tmp'$"):
        m = _re.match(pat, t)
        if m and m.group(1) in env:
            k = path_kind(env[m.group(1)], env, depth + 1)
            if k in (".model", ".last"):
                return k + "Tmp"
    return None


def save_table_x(fn: ast.FunctionDef, cls: ast.ClassDef | None = None) -> list[tuple[str, int | None]]:
    """the statement table with, for every statement, the index from which an exception makes it run while unwinding
    (`with` exits, `finally` clauses), or None"""
    rows = save_table(fn, cls)
    unw = getattr(save_table, "last_unwind", {})
    return [(r, unw.get(i)) for i, r in enumerate(rows)]


def save_table(fn: ast.FunctionDef, cls: ast.ClassDef | None = None) -> list[str]:
    env: dict[str, ast.AST] = {}
    out: list[str] = []
    unwind: dict[int, int] = {}
    save_table.last_unwind = unwind

    def handle_call(c: ast.Call, open_files: dict[str, str]):
        f = ast.unparse(c.func)
        if f in ("os.replace", "os.rename", "shutil.move") and len(c.args) == 2:
            out.append(f".replace {path_kind(c.args[0], env)} {path_kind(c.args[1], env)}")
        elif f == "torch.save" and len(c.args) >= 2:
            tgt = c.args[1]
            if isinstance(tgt, ast.Name) and tgt.id in open_files:
                out.append(f".writePayload {open_files[tgt.id]}")
            else:   # torch.save(data, path) opens the path for writing itself
                k = path_kind(tgt, env)
                out.extend([f".openW {k}", f".writePayload {k}", f".closeF {k}"])
        elif isinstance(c.func, ast.Attribute) and c.func.attr == "write" and isinstance(c.func.value, ast.Name) \
                and c.func.value.id in open_files:
            if len(c.args) != 1 or ast.unparse(c.args[0]).replace(" ", "") != "str(iteration)":
                raise Untranslatable(f"`{ast.unparse(c)}` does not write str(iteration)")
            out.append(f".writeLabel {open_files[c.func.value.id]}")
        elif f in _DELETES or (isinstance(c.func, ast.Attribute) and c.func.attr in ("unlink", "rmdir")):
            out.append(".prune")
        elif f.startswith("self.") and f.count(".") == 1 and cls is not None:
            m = next((b for b in cls.body if isinstance(b, ast.FunctionDef) and b.name == f[5:]), None)
            if m is not None and _deletes_files(m, cls):
                out.append(".prune")
        elif isinstance(c.func, ast.Attribute) and c.func.attr in ("write_text", "write_bytes", "rename", "replace") \
                and f not in ("os.replace",) and not f.startswith("datetime"):
            raise Untranslatable(f"file operation `{ast.unparse(c)}` is not understood")

    def inline_context_manager(ce: ast.Call, as_var, opened) -> list[tuple[str, bool]]:
        """`with self.m(path, …) as f:` for a generator-based context manager `m` of the same class: emits the set-up
        (`open` of the temporary next to `path`) and returns the statements after the `yield` as (row, runs-on-unwinding)"""
        m = next((b for b in cls.body if isinstance(b, ast.FunctionDef) and b.name == ast.unparse(ce.func)[5:]), None)
        if m is None or not any("contextmanager" in ast.unparse(d) for d in m.decorator_list):
            raise Untranslatable(f"unknown context manager `{ast.unparse(ce)}`")
        params = [a.arg for a in m.args.args if a.arg not in ("self", "cls")]
        menv = dict(env)
        for name, arg in zip(params, ce.args):
            menv[name] = arg if not isinstance(arg, ast.Name) else env.get(arg.id, arg)
        yields = [n for n in ast.walk(m) if isinstance(n, (ast.Yield, ast.YieldFrom))]
        if len(yields) != 1:
            raise Untranslatable("context manager with several yields")
        fvar = None
        post: list[tuple[str, bool]] = []
        seen_yield = False

        def kind_of(node):
            k = _tmp_of(node, menv)
            if k:
                return k
            if isinstance(node, ast.Name) and node.id in menv and node.id not in params:
                k = _tmp_of(menv[node.id], menv)
                if k:
                    return k
            return path_kind(node, menv)

        def after(stmts, on_unwind):
            for st2 in stmts:
                for c in sorted((n for n in ast.walk(st2) if isinstance(n, ast.Call)), key=lambda n: (n.lineno, n.col_offset)):
                    f = ast.unparse(c.func)
                    if f in ("os.replace", "os.rename", "shutil.move") and len(c.args) == 2:
                        post.append((f".replace {kind_of(c.args[0])} {kind_of(c.args[1])}", on_unwind))
                    elif isinstance(c.func, ast.Attribute) and c.func.attr == "close" and ast.unparse(c.func.value) == fvar[0]:
                        post.append((f".closeF {fvar[1]}", on_unwind))
                    elif f in _DELETES or f in _WRITES or (isinstance(c.func, ast.Attribute) and c.func.attr in
                                                         ("unlink", "write", "write_text", "write_bytes", "rename", "replace")):
                        raise Untranslatable(f"`{ast.unparse(c)[:60]}` in the exit part of a context manager")

        for st2 in m.body:
            if isinstance(st2, ast.Expr) and isinstance(st2.value, ast.Constant):
                continue
            has_yield = any(isinstance(n, (ast.Yield, ast.YieldFrom)) for n in ast.walk(st2))
            if not seen_yield and not has_yield:
                if isinstance(st2, ast.Assign) and len(st2.targets) == 1 and isinstance(st2.targets[0], ast.Name):
                    v = st2.value
                    if isinstance(v, ast.Call) and ast.unparse(v.func) == "open" and v.args:
                        k = kind_of(v.args[0])
                        out.append(f".openW {k}")
                        fvar = (st2.targets[0].id, k)
                    else:
                        menv[st2.targets[0].id] = v
                elif any(isinstance(n, ast.Call) and ast.unparse(n.func) in ("open",) + _WRITES + _DELETES for n in ast.walk(st2)):
                    raise Untranslatable("file operation in the set-up of a context manager")
            elif has_yield:
                seen_yield = True
                if fvar is None:
                    raise Untranslatable("context manager does not open a file before yielding")
                if isinstance(st2, ast.Try):
                    if not any(isinstance(n, (ast.Yield, ast.YieldFrom)) for b in st2.body for n in ast.walk(b)):
                        raise Untranslatable("yield outside the try body")
                    if any(isinstance(n, ast.Call) for h in st2.handlers for n in ast.walk(h) if isinstance(n, ast.Call)
                           and ast.unparse(n.func) in _WRITES + _DELETES):
                        raise Untranslatable("file operation in an except handler of a context manager")
                    after(st2.orelse, False)
                    after(st2.finalbody, True)
                elif not (isinstance(st2, ast.Expr) and isinstance(st2.value, ast.Yield)):
                    raise Untranslatable("unexpected statement around the yield")
            else:
                after([st2], False)
        if isinstance(as_var, ast.Name):
            opened[as_var.id] = fvar[1]
        return post

    def walk(stmts, open_files):
        for st in stmts:
            if isinstance(st, ast.Assign) and len(st.targets) == 1 and isinstance(st.targets[0], ast.Name):
                env[st.targets[0].id] = st.value
            if isinstance(st, ast.With):
                opened = dict(open_files)
                kinds = []
                post: list[tuple[str, bool]] = []
                for item in st.items:
                    ce = item.context_expr
                    if isinstance(ce, ast.Call) and ast.unparse(ce.func) == "open" and ce.args:
                        mode = ce.args[1].value if len(ce.args) > 1 and isinstance(ce.args[1], ast.Constant) else \
                            next((k.value.value for k in ce.keywords if k.arg == "mode" and isinstance(k.value, ast.Constant)), "r")
                        if "w" not in mode:
                            raise Untranslatable(f"`{ast.unparse(ce)}` is not opened for (truncating) writing")
                        k = path_kind(ce.args[0], env)
                        kinds.append(k)
                        out.append(f".openW {k}")
                        if isinstance(item.optional_vars, ast.Name):
                            opened[item.optional_vars.id] = k
                    elif isinstance(ce, ast.Call) and ast.unparse(ce.func).startswith("self.") and cls is not None:
                        post = inline_context_manager(ce, item.optional_vars, opened)
                    else:
                        raise Untranslatable(f"unknown context manager `{ast.unparse(ce)}`")
                start = len(out)
                walk(st.body, opened)
                for k in reversed(kinds):
                    unwind[len(out)] = start
                    out.append(f".closeF {k}")
                for row, on_unwind in post:
                    if on_unwind:
                        unwind[len(out)] = start
                    out.append(row)
            elif isinstance(st, ast.Try):
                start = len(out)
                walk(st.body, open_files)
                walk(st.orelse, open_files)
                if any(isinstance(n, ast.Call) and (ast.unparse(n.func) in _WRITES + _DELETES or ast.unparse(n.func) == "open")
                       for h in st.handlers for n in ast.walk(h)):
                    raise Untranslatable("file operation in an except handler of save")
                fstart = len(out)
                walk(st.finalbody, open_files)
                for i in range(fstart, len(out)):
                    unwind[i] = start
            elif isinstance(st, (ast.If, ast.For, ast.While)):
                before = len(out)
                walk(st.body, open_files)
                walk(getattr(st, "orelse", []), open_files)
                if len(out) != before and not (isinstance(st, ast.If) and ast.unparse(st.test) == "not self.save_to_disk") \
                        and not all(o == ".prune" for o in out[before:]):     # optional pruning: which files = `dels`
                    raise Untranslatable("file operation under a condition / loop")
            else:
                for c in sorted((n for n in ast.walk(st) if isinstance(n, ast.Call)), key=lambda n: (n.lineno, n.col_offset)):
                    handle_call(c, open_files)

    walk(fn.body, {})
    if not out:
        raise Untranslatable("no file operation found in save")
    return out


def checkpointer_class(tree: ast.AST) -> ast.ClassDef | None:
    return next((n for n in ast.walk(tree) if isinstance(n, ast.ClassDef) and n.name == "Checkpointer"), None)


def _save_extra():
    name = "saveStmts"
    try:
        tree = parse_file(REPO / CK)
        fn = find_function(tree, "Checkpointer.save")
        rows = save_table(fn, checkpointer_class(tree))
        unw = dict(save_table.last_unwind)
        xrows = ", ".join(f"⟨{r}, {'some ' + str(unw[i]) if i in unw else 'none'}⟩" for i, r in enumerate(rows))
        return (f"/-- translated from `{CK}`:`Checkpointer.save` (order of the file operations) -/\n"
                f"def {name} : List Ckpt.Stmt := [{', '.join(rows)}]\n\n"
                f"/-- … with the `with` / `try … finally` structure: which statements also run while an exception unwinds -/\n"
                f"def saveStmtsX : List Ckpt.XStmt := [{xrows}]\n"), {name: "translated", "saveStmtsX": "translated"}
    except Untranslatable as e:
        return (f"/-- SKIPPED ({e}); stands for the hand-written table -/\n"
                f"def {name} : List Ckpt.Stmt := Ckpt.saveTable\n\n"
                f"def saveStmtsX : List Ckpt.XStmt := Ckpt.saveTableX\n"), {name: f"skipped: {e}", "saveStmtsX": f"skipped: {e}"}


# --------------------------------------------------------------------------------------------------
# rational closed forms of the schedulers
class RatTr:
    """expressions over ℚ; `ints` are Int-typed Lean parameters (coerced), `rats` Rat-typed ones"""

    def __init__(self, ints: dict[str, str], rats: dict[str, str], nats: dict[str, str] | None = None):
        self.ints, self.rats, self.locals = ints, rats, {}
        self.nats = nats or {}

    def rat(self, n: ast.AST) -> str:
        t = ast.unparse(n)
        if isinstance(n, ast.Name) and n.id in self.locals:
            return self.locals[n.id]
        if t in self.rats:
            return self.rats[t]
        if t in self.ints:
            return f"(({self.ints[t]} : Int) : Rat)"
        if isinstance(n, ast.Constant) and isinstance(n.value, (int, float)) and not isinstance(n.value, bool):
            f = Fraction(str(n.value))
            return f"({f.numerator} : Rat)" if f.denominator == 1 else f"(({f.numerator} : Rat) / {f.denominator})"
        if isinstance(n, ast.BinOp):
            if isinstance(n.op, ast.Pow):
                return f"({self.rat(n.left)} ^ {self.nat(n.right)})"
            a, b = self.rat(n.left), self.rat(n.right)
            op = {ast.Add: "+", ast.Sub: "-", ast.Mult: "*", ast.Div: "/"}.get(type(n.op))
            if op is None:
                raise Untranslatable(f"operator {type(n.op).__name__}")
            return f"({a} {op} {b})"
        if isinstance(n, ast.UnaryOp) and isinstance(n.op, ast.USub):
            return f"(-{self.rat(n.operand)})"
        if isinstance(n, ast.Call) and ast.unparse(n.func) == "math.cos" and len(n.args) == 1:
            a = n.args[0]   # math.pi * x / y
            if (isinstance(a, ast.BinOp) and isinstance(a.op, ast.Div) and isinstance(a.left, ast.BinOp)
                    and isinstance(a.left.op, ast.Mult) and ast.unparse(a.left.left) == "math.pi"):
                return f"(cosPi {self.int(a.left.right)} {self.int(a.right)})"
            raise Untranslatable(f"cosine argument `{ast.unparse(a)}`")
        raise Untranslatable(f"rational expression `{t}`")

    def int(self, n: ast.AST) -> str:
        t = ast.unparse(n)
        if t in self.ints:
            return self.ints[t]
        if isinstance(n, ast.Constant) and isinstance(n.value, int):
            return f"({n.value} : Int)"
        raise Untranslatable(f"integer expression `{t}`")

    def nat(self, n: ast.AST) -> str:
        t = ast.unparse(n)
        if t in self.nats:
            return self.nats[t]
        if isinstance(n, ast.Call) and ast.unparse(n.func) == "bisect_right" and len(n.args) == 2:
            a = ast.unparse(n.args[0])
            if a != "self.milestones":
                raise Untranslatable(f"bisect_right over `{a}`")
            return f"(Train.Sched.bisectRight milestones {self.int(n.args[1])})"
        if isinstance(n, ast.Constant) and isinstance(n.value, int) and n.value >= 0:
            return str(n.value)
        raise Untranslatable(f"exponent `{t}`")

    def cond(self, n: ast.AST) -> str:
        if isinstance(n, ast.Compare) and len(n.ops) == 1:
            l, r = n.left, n.comparators[0]
            if isinstance(r, ast.Constant) and isinstance(r.value, str):        # method == "linear"
                if not isinstance(n.ops[0], ast.Eq) or ast.unparse(l) != "method":
                    raise Untranslatable(f"condition `{ast.unparse(n)}`")
                ctor = {"constant": ".constant", "linear": ".linear"}.get(r.value)
                if ctor is None:
                    raise Untranslatable(f"unknown method literal {r.value!r}")
                return f"method = {ctor}"
            sym = {ast.GtE: "≥", ast.Gt: ">", ast.LtE: "≤", ast.Lt: "<", ast.Eq: "="}.get(type(n.ops[0]))
            if sym is None:
                raise Untranslatable(f"condition `{ast.unparse(n)}`")
            return f"{self.int(l)} {sym} {self.int(r)}"
        raise Untranslatable(f"condition `{ast.unparse(n)}`")

    def body(self, stmts: list[ast.stmt]) -> str:
        """`if c: return e` chains, assignments, `raise` → an `Option Rat` term"""
        if not stmts:
            raise Untranslatable("function falls off its end")
        st, rest = stmts[0], stmts[1:]
        if isinstance(st, ast.Expr) and isinstance(st.value, ast.Constant):      # docstring
            return self.body(rest)
        if isinstance(st, ast.Return):
            return f"some {self.rat(st.value)}"
        if isinstance(st, ast.Raise):
            return "none"
        if isinstance(st, ast.Assign) and len(st.targets) == 1 and isinstance(st.targets[0], ast.Name):
            v = self.rat(st.value)
            name = st.targets[0].id
            self.locals[name] = name
            return f"let {name} : Rat := {v}\n  {self.body(rest)}"
        if isinstance(st, ast.If) and not st.orelse:
            c = self.cond(st.test)
            saved = dict(self.locals)
            then = self.body(st.body)
            self.locals = saved
            return f"if {c} then {then} else\n  {self.body(rest)}"
        raise Untranslatable(f"statement `{ast.unparse(st).splitlines()[0]}`")


def _warmup_build(k: Kernel, fn: ast.FunctionDef) -> str:
    args = [a.arg for a in fn.args.args]
    if args != ["method", "curr_iter", "warmup_iters", "warmup_factor"]:
        raise Untranslatable(f"unexpected signature {args}")
    tr = RatTr({"curr_iter": "curr_iter", "warmup_iters": "warmup_iters"}, {"warmup_factor": "warmup_factor"})
    body = tr.body(fn.body)
    return (f"def {k.name} (method : Train.Sched.Warmup) (curr_iter warmup_iters : Int) (warmup_factor : Rat) : Option Rat :=\n"
            f"  {body}\n")


def _get_lr_element(fn: ast.FunctionDef) -> tuple[ast.AST, list[str]]:
    """the element expression of the list comprehension returned by get_lr, and the argument texts of the call to
    `_get_warmup_factor_at_iter`"""
    call_args = None
    for n in ast.walk(fn):
        if isinstance(n, ast.Call) and ast.unparse(n.func) == "_get_warmup_factor_at_iter":
            call_args = [ast.unparse(a) for a in n.args]
    ret = next((s for s in fn.body if isinstance(s, ast.Return)), None)
    if call_args is None or ret is None or not isinstance(ret.value, ast.ListComp):
        raise Untranslatable("get_lr is not `warmup_factor = …; return [… for base_lr in self.base_lrs]`")
    lc = ret.value
    if len(lc.generators) != 1 or ast.unparse(lc.generators[0].target) != "base_lr" \
            or ast.unparse(lc.generators[0].iter) != "self.base_lrs" or lc.generators[0].ifs:
        raise Untranslatable("unexpected comprehension in get_lr")
    if call_args != ["self.warmup_method", "self.last_epoch", "self.warmup_iterations", "self.warmup_factor"]:
        raise Untranslatable(f"warm-up factor computed from {call_args}")
    return lc.elt, call_args


def _multistep_build(k: Kernel, fn: ast.FunctionDef) -> str:
    elt, _ = _get_lr_element(fn)
    tr = RatTr({"self.last_epoch": "last_epoch"}, {"base_lr": "base_lr", "warmup_factor": "warmup_factor", "self.gamma": "gamma"})
    return (f"def {k.name} (base_lr warmup_factor gamma : Rat) (milestones : List Int) (last_epoch : Int) : Rat :=\n"
            f"  {tr.rat(elt)}\n")


def _cosine_build(k: Kernel, fn: ast.FunctionDef) -> str:
    elt, _ = _get_lr_element(fn)
    tr = RatTr({"self.last_epoch": "last_epoch", "self.max_iters": "max_iters"},
               {"base_lr": "base_lr", "warmup_factor": "warmup_factor"})
    return (f"def {k.name} (cosPi : Int → Int → Rat) (base_lr warmup_factor : Rat) (max_iters last_epoch : Int) : Rat :=\n"
            f"  {tr.rat(elt)}\n")


def _sched_extra():
    chunks, status = [], {}
    specs = [
        ("warmup_factor_at", "_get_warmup_factor_at_iter", _warmup_build,
         "def warmup_factor_at (method : Train.Sched.Warmup) (curr_iter warmup_iters : Int) (warmup_factor : Rat) : Option Rat :=\n"
         "  Train.Sched.warmupFactorAt method curr_iter warmup_iters warmup_factor\n"),
        ("multistep_lr", "WarmupMultiStepLR.get_lr", _multistep_build,
         "def multistep_lr (base_lr warmup_factor gamma : Rat) (milestones : List Int) (last_epoch : Int) : Rat :=\n"
         "  base_lr * warmup_factor * gamma ^ Train.Sched.bisectRight milestones last_epoch\n"),
        ("cosine_lr", "WarmupCosineLR.get_lr", _cosine_build,
         "def cosine_lr (cosPi : Int → Int → Rat) (base_lr warmup_factor : Rat) (max_iters last_epoch : Int) : Rat :=\n"
         "  base_lr * warmup_factor * (1 / 2) * (1 + cosPi last_epoch max_iters)\n"),
    ]
    tree = None
    for name, func, build, fallback in specs:
        try:
            tree = tree or parse_file(REPO / LR)
            src = build(Kernel(name, LR, func, [], ""), find_function(tree, func))
            chunks.append(f"/-- translated from `{LR}`:`{func}` -/\n{src}")
            status[name] = "translated"
        except Untranslatable as e:
            chunks.append(f"/-- SKIPPED ({e}); stands for the hand-written model -/\n{fallback}")
            status[name] = f"skipped: {e}"
    return "\n".join(chunks), status


# --------------------------------------------------------------------------------------------------
# the code around the core: load aliases, Engine.train's initialization chain, validation tail, API facts, milestones
T = "direct/train.py"


def _latest_aliases(fn: ast.FunctionDef) -> str:
    """the tuple of `if iteration in ("latest", -1):` as `List (Option Int)` (`none` = the string "latest")"""
    for st in ast.walk(fn):
        if isinstance(st, ast.If) and isinstance(st.test, ast.Compare) and ast.unparse(st.test.left) == "iteration" \
                and len(st.test.ops) == 1 and "last_model" in ast.unparse(st):
            op, rhs = st.test.ops[0], st.test.comparators[0]
            if isinstance(op, ast.In) and isinstance(rhs, (ast.Tuple, ast.List, ast.Set)):
                elts = rhs.elts
            elif isinstance(op, ast.Eq):
                elts = [rhs]
            else:
                raise Untranslatable(f"test `{ast.unparse(st.test)}`")
            out = []
            for e in elts:
                if isinstance(e, ast.Constant) and e.value == "latest":
                    out.append("none")
                else:
                    try:
                        v = ast.literal_eval(e)
                    except Exception:  # noqa: BLE001
                        raise Untranslatable(f"alias `{ast.unparse(e)}`")
                    if isinstance(v, bool) or not isinstance(v, int):
                        raise Untranslatable(f"alias `{ast.unparse(e)}`")
                    out.append(f"some ({v})")
            return "[" + ", ".join(out) + "]"
    raise Untranslatable("the `iteration in (…)` test guarding the read of last_model.txt was not found")


def init_chain(fn: ast.FunctionDef) -> list[tuple[str, bool, list[str]]]:
    """the `if … elif …` statements of Engine.train that mention `initialization`:
    [(condition constructor, is an elif of the previous one, [actions])]"""
    rows: list[tuple[str, bool, list[str]]] = []

    def cond(test: ast.AST) -> str:
        t = ast.unparse(test).replace(" ", "")
        if t in ("start_iter>0andinitialization", "initializationandstart_iter>0"):
            return ".resumedAndInit"
        if t in ("initialization", "initializationisnotNone"):
            return ".init"
        raise Untranslatable(f"initialization test `{ast.unparse(test)}`")

    def acts(body: list[ast.stmt]) -> list[str]:
        out = []
        for st in body:
            for n in ast.walk(st):
                if isinstance(n, ast.Call):
                    f = ast.unparse(n.func)
                    if f.endswith(".load_models_from_file"):
                        out.append(".loadModels")
                    elif f.endswith(".load_from_path"):
                        om = next((k.value for k in n.keywords if k.arg == "only_models"), None)
                        out.append(".loadModels" if isinstance(om, ast.Constant) and om.value is True else ".loadFull")
                    elif f.endswith("checkpointer.load"):
                        out.append(".loadFull")
                if isinstance(n, ast.Assign) and ast.unparse(n.targets[0]) == "start_with_validation":
                    if not (isinstance(n.value, ast.Constant) and n.value.value is True):
                        raise Untranslatable(f"`{ast.unparse(n)}`")
                    out.append(".swvTrue")
                if isinstance(n, (ast.Assign, ast.AugAssign)) and ast.unparse(getattr(n, "targets", [getattr(n, "target", None)])[0]) \
                        in ("start_iter",):
                    raise Untranslatable("start_iter assigned inside the initialization chain")
        return out

    def visit(st: ast.If, chained: bool):
        rows.append((cond(st.test), chained, acts(st.body)))
        if len(st.orelse) == 1 and isinstance(st.orelse[0], ast.If):
            visit(st.orelse[0], True)
        elif st.orelse:
            if "initialization" in ast.unparse(ast.Module(body=st.orelse, type_ignores=[])):
                raise Untranslatable("`else` branch of the initialization chain mentions initialization")

    for st in fn.body:
        if isinstance(st, ast.If) and "initialization" in ast.unparse(st.test):
            visit(st, False)
        elif not isinstance(st, ast.If) and "initialization" in ast.unparse(st) and not isinstance(st, ast.Expr):
            raise Untranslatable(f"`initialization` used outside the chain: `{ast.unparse(st).splitlines()[0]}`")
    if not rows:
        raise Untranslatable("no initialization chain in Engine.train")
    return rows


def _val_tail(fn: ast.FunctionDef) -> str:
    """what `validation_loop` does to the training-mode flags after the loop over the validation datasets"""
    tail = None
    for st in fn.body:
        for n in ast.walk(st):
            if isinstance(n, ast.Call):
                f = ast.unparse(n.func)
                if f == "self.models_training_mode":
                    tail = ".allModels"
                elif f == "self.model.train":
                    tail = ".mainOnly" if tail != ".allModels" else tail
    last = fn.body[-1]
    if tail is not None and not (isinstance(last, ast.Expr) and isinstance(last.value, ast.Call)
                                 and ast.unparse(last.value.func) in ("self.models_training_mode", "self.model.train")):
        raise Untranslatable("the training-mode call is not the last statement of validation_loop")
    return tail or ".nothing"


def _kw_names(call: ast.Call) -> list[str]:
    return [k.arg for k in call.keywords if k.arg is not None]


def _checkpointer_call(fn: ast.FunctionDef) -> ast.Call:
    for n in ast.walk(fn):
        if isinstance(n, ast.Call) and ast.unparse(n.func) == "Checkpointer":
            return n
    raise Untranslatable("no Checkpointer(…) call")


def _api_facts() -> tuple[str, list[str]]:
    """structural / behavioural facts; a fact that cannot be decided keeps the model's value and is listed as unknown"""
    ck = parse_file(REPO / CK)
    en = parse_file(REPO / E)
    unknown: list[str] = []
    try:
        from props.c15_engine import api_probes      # behaviour of the real class (harness side)

        probes = api_probes()
    except Exception:  # noqa: BLE001
        probes = {}

    def probed(name: str) -> bool:
        if name not in probes:
            unknown.append(name)
            return True
        return probes[name]

    tc = _checkpointer_call(find_function(en, "Engine.train"))
    std = next((ast.unparse(k.value).replace(" ", "") for k in tc.keywords if k.arg == "save_to_disk"), None)
    if std in ("communication.is_main_process()", "Falseifnotcommunication.is_main_process()elseTrue",
               "Trueifcommunication.is_main_process()elseFalse", "bool(communication.is_main_process())",
               "notnotcommunication.is_main_process()"):
        main_only = True
    elif std is None or std in ("True", "False") or "is_main_process" not in std and "rank" not in std:
        main_only = False         # every rank writes (or none): positively not "the main process only"
    else:
        main_only = True
        unknown.append("trainWritesOnMainOnly")
    pc = _checkpointer_call(find_function(en, "Engine.predict"))
    pstd = next((k.value for k in pc.keywords if k.arg == "save_to_disk"), None)
    if isinstance(pstd, ast.Constant):
        predict_never = pstd.value is False
    elif pstd is None:
        predict_never = False
    else:
        predict_never = True
        unknown.append("predictNeverWrites")
    lists = False
    for name in ("Checkpointer.load", "Checkpointer.load_from_path", "Checkpointer._load_checkpoint"):
        for n in ast.walk(find_function(ck, name)):
            if isinstance(n, ast.Call):
                f = ast.unparse(n.func)
                if f.split(".")[-1] in ("glob", "rglob", "iglob", "iterdir", "listdir", "scandir", "walk"):
                    lists = True
    # every `self.checkpointer.load(…)` of Engine.train is guarded by `resume` (as a conjunct of the enclosing tests)
    loads = []

    def walk_tests(stmts, tests):
        for st in stmts:
            if isinstance(st, ast.If):
                walk_tests(st.body, tests + [st.test])
                walk_tests(st.orelse, tests + [ast.UnaryOp(op=ast.Not(), operand=st.test)])
            elif isinstance(st, (ast.For, ast.While, ast.With, ast.Try)):
                walk_tests(st.body, tests)
            else:
                for n in ast.walk(st):
                    if isinstance(n, ast.Call) and ast.unparse(n.func) == "self.checkpointer.load":
                        loads.append(tests)
    walk_tests(find_function(en, "Engine.train").body, [])

    def conjuncts(t):
        if isinstance(t, ast.BoolOp) and isinstance(t.op, ast.And):
            return [c for v in t.values for c in conjuncts(v)]
        return [ast.unparse(t)]
    resume_only = True
    for tests in loads:
        cs = [c for t in tests for c in conjuncts(t)]
        if "resume" in cs or "resume is True" in cs or "resume == True" in cs:
            continue
        if any("resume" in c for c in cs):
            unknown.append("resumeOnlyWhenAsked")      # guarded by some other expression over `resume`: not decided here
        else:
            resume_only = False
    if not loads:
        unknown.append("resumeOnlyWhenAsked")
    b = lambda v: "true" if v else "false"  # noqa: E731
    names = ", ".join('"' + k + '"' for k in _kw_names(tc) if not k.startswith("__"))
    return (f"{{ ctorUnwrapsMain := {b(probed('ctorUnwrapsMain'))}, ctorUnwrapsRegexKeys := {b(probed('ctorUnwrapsRegexKeys'))}, "
            f"saveGuarded := {b(probed('saveGuarded'))}, "
            f"trainWritesOnMainOnly := {b(main_only)}, predictNeverWrites := {b(predict_never)}, "
            f"loadListsDirectory := {b(lists)}, missingKeysRaise := {b(probed('missingKeysRaise'))}, "
            f"modelsFromFileOnlyModels := {b(probed('modelsFromFileOnlyModels'))}, resumeOnlyWhenAsked := {b(resume_only)}, "
            f"trainCheckpointables := [{names}] }}"), sorted(set(unknown))


def _solver_steps(fn: ast.FunctionDef) -> str:
    st = find_assign(fn, "solver_steps")
    v = st.value
    if isinstance(v, ast.Call) and ast.unparse(v.func) == "list" and len(v.args) == 1:
        v = v.args[0]
    if not (isinstance(v, ast.Call) and ast.unparse(v.func) == "range" and len(v.args) == 3 and not v.keywords):
        raise Untranslatable(f"solver_steps = `{ast.unparse(st.value)}`")
    tr = ExprTr({"env.cfg.training.lr_step_size": "lr_step_size", "env.cfg.training.num_iterations": "num_iterations"})
    a, b_, c = (tr.int(x) for x in v.args)
    return f"C15E.pyRange {a} {b_} {c}"


def _try_events() -> str:
    """loop-table events lexically inside the `try` of training_loop whose handlers catch ProcessKilledException
    (methods of Engine called there are followed)"""
    from .c16 import _main_loop, classify_call

    tree = parse_file(REPO / E)
    fn = find_function(tree, "Engine.training_loop")
    cls = next((n for n in ast.walk(tree) if isinstance(n, ast.ClassDef) and n.name == "Engine"), None)
    tries = [n for n in ast.walk(_main_loop(fn)) if isinstance(n, ast.Try)
             and any("ProcessKilledException" in ast.unparse(h.type) for h in n.handlers if h.type is not None)]
    if len(tries) != 1:
        raise Untranslatable("expected exactly one try … except ProcessKilledException in the training loop")
    evs: list[str] = []

    def collect(stmts, depth):
        for st in stmts:
            for c in sorted((n for n in ast.walk(st) if isinstance(n, ast.Call)), key=lambda n: (n.lineno, n.col_offset)):
                ev = classify_call(c)
                if ev:
                    if ev not in evs:
                        evs.append(ev)
                    continue
                f = ast.unparse(c.func)
                if f.startswith("self.") and f.count(".") == 1 and cls is not None and depth < 3:
                    m = next((b for b in cls.body if isinstance(b, ast.FunctionDef) and b.name == f[5:]), None)
                    if m is not None:
                        collect(m.body, depth + 1)
    collect(tries[0].body, 0)
    return "[" + ", ".join(evs) + "]"


def engine_facts() -> dict[str, str]:
    """Lean terms of the structural facts, or the reason they could not be read (`!…`)"""
    out: dict[str, str] = {}

    def attempt(name, thunk):
        try:
            out[name] = thunk()
        except Untranslatable as e:
            out[name] = "!" + str(e)

    attempt("latestAliases", lambda: _latest_aliases(find_function(parse_file(REPO / CK), "Checkpointer.load")))
    attempt("initTable", lambda: "[" + ", ".join(
        f"⟨{c}, {'true' if ch else 'false'}, [{', '.join(a)}]⟩"
        for c, ch, a in init_chain(find_function(parse_file(REPO / E), "Engine.train"))) + "]")
    attempt("valTail", lambda: _val_tail(find_function(parse_file(REPO / E), "Engine.validation_loop")))
    def api():
        text, unknown = _api_facts()
        out["apiFacts.unknown"] = ", ".join(unknown)
        return text
    attempt("apiFacts", api)
    attempt("solver_steps", lambda: _solver_steps(find_function(parse_file(REPO / T), "setup_train")))
    attempt("tryEvents", _try_events)
    return out


_FACT_TYPES = {
    "latestAliases": ("List (Option Int)", "C15E.latestAliases", CK + "`:`Checkpointer.load"),
    "initTable": ("List C15E.InitBranch", "C15E.initTable", E + "`:`Engine.train"),
    "valTail": ("C15E.ValTail", "C15E.valTail", E + "`:`Engine.validation_loop"),
    "apiFacts": ("C15E.ApiFacts", "C15E.apiFacts", CK + "` / `" + E),
    "tryEvents": ("List Train.Ev", "C15E.tryEvents", E + "`:`Engine.training_loop"),
}


def _engine_extra():
    facts = engine_facts()
    chunks, status = [], {}
    for name, (ty, fallback, where) in _FACT_TYPES.items():
        v = facts[name]
        if v.startswith("!"):
            chunks.append(f"/-- SKIPPED ({v[1:]}); stands for the hand-written model -/\ndef {name} : {ty} := {fallback}\n")
            status[name] = "skipped: " + v[1:]
        else:
            chunks.append(f"/-- read from `{where}` -/\ndef {name} : {ty} := {v}\n")
            unk = facts.get(name + ".unknown")
            status[name] = "translated" if not unk else f"translated (undecided, model value kept: {unk})"
    try:
        from props.c15_engine import train_objects     # introspection of a real engine (harness side)

        rows = train_objects()
        body = ", ".join(f'("{k}", {"false" if kind == "dropped" else "true"})' for k, kind in rows)
        chunks.append("/-- by introspection of a real `Engine.train`: every object handed to the Checkpointer, and whether "
                      "`Checkpointer.save` keeps it (HasStateDict or `__meta__`) -/\n"
                      f"def trainObjects : List (String × Bool) := [{body}]\n")
        status["trainObjects"] = "translated"
    except Exception as e:  # noqa: BLE001 - the engine cannot be built in this tree: rely on the oracle
        chunks.append(f"/-- SKIPPED ({type(e).__name__}: {str(e)[:80]}); stands for the hand-written model -/\n"
                      "def trainObjects : List (String × Bool) := C15E.trainObjects\n")
        status["trainObjects"] = f"skipped: {type(e).__name__}"
    v = facts["solver_steps"]
    if v.startswith("!"):
        chunks.append(f"/-- SKIPPED ({v[1:]}); stands for the hand-written model -/\n"
                      "def solver_steps (lr_step_size num_iterations : Int) : List Int := C15E.solverSteps lr_step_size num_iterations\n")
        status["solver_steps"] = "skipped: " + v[1:]
    else:
        chunks.append(f"/-- translated from `{T}`:`setup_train` (the milestones handed to WarmupMultiStepLR) -/\n"
                      f"def solver_steps (lr_step_size num_iterations : Int) : List Int := {v}\n")
        status["solver_steps"] = "translated"
    return "\n".join(chunks), status


def _c15_extra():
    t1, s1 = _save_extra()
    t2, s2 = _sched_extra()
    t3, s3 = _engine_extra()
    return t1 + "\n" + t2 + "\n" + t3, {**s1, **s2, **s3}


EXTRA["C15"] = _c15_extra


# --------------------------------------------------------------------------------------------------
# integer kernels of engine.py
def _save_call(fn: ast.FunctionDef, callee: str = "self.checkpointer.save", nargs: int = 1):
    """(call `self.checkpointer.save(arg)`, enclosing if-tests)"""
    found = []

    def walk(stmts, tests):
        for st in stmts:
            if isinstance(st, ast.If):
                walk(st.body, tests + [st.test])
                walk(st.orelse, tests)
            else:
                for c in ast.walk(st):
                    if isinstance(c, ast.Call) and ast.unparse(c.func) == callee:
                        found.append((c, tests))
    walk(fn.body, [])
    if len(found) != 1 or len(found[0][0].args) != nargs:
        raise Untranslatable(f"expected exactly one `{callee}(…)` with {nargs} argument(s)")
    return found[0]


_B = {"iter_idx": "iter_idx", "total_iter": "total_iter",
      "self.cfg.training.checkpointer.checkpoint_steps": "ck_steps"}


def _save_label(k: Kernel, fn: ast.FunctionDef) -> str:
    c, _ = _save_call(fn)
    return emit_def(k.name, k.params, [], ExprTr(_B).int(c.args[0]), "Int")


def _call_guard(callee: str, nargs: int, binds: dict[str, str]):
    def build(k: Kernel, fn: ast.FunctionDef) -> str:
        c, tests = _save_call(fn, callee, nargs)
        if nargs == 1 and ast.unparse(c.args[0]) != "iter_idx":
            raise Untranslatable(f"`{ast.unparse(c)}` is not called with iter_idx")
        tr = ExprTr(binds)
        return emit_def(k.name, k.params, [], "(" + " && ".join(tr.bool(t) for t in tests) + ")" if tests else "true", "Bool")
    return build


def _save_guard(k: Kernel, fn: ast.FunctionDef) -> str:
    _, tests = _save_call(fn)
    if not tests:
        return emit_def(k.name, k.params, [], "true", "Bool")
    tr = ExprTr(_B)
    return emit_def(k.name, k.params, [], "(" + " && ".join(tr.bool(t) for t in tests) + ")", "Bool")


register("C15", [
    Kernel("start_iter", E, "Engine.train", ["label"], "Train.resumeStart",
           assign_value({"checkpoint['iteration']": "label"}, "start_iter", nth=1), imports=TRAIN),
    Kernel("kill_label", E, "Engine.checkpoint_and_write_to_logs", ["iter_idx"], "Train.killLabel", _save_label, imports=TRAIN),
    Kernel("kill_guard", E, "Engine.checkpoint_and_write_to_logs", ["iter_idx"], "Train.killGuard", _save_guard,
           ret_type="Bool", imports=TRAIN),
    Kernel("ckpt_label", E, "Engine.checkpoint_model_at_interval", ["iter_idx"], "(fun i => i)", _save_label, imports=TRAIN),
    Kernel("ckpt_guard", E, "Engine.checkpoint_model_at_interval", ["iter_idx", "ck_steps", "total_iter"],
           "(fun i c t => decide (i ≥ 5) && (Int.fmod i c == 0 || i + 1 == t))", _save_guard, ret_type="Bool", imports=TRAIN),
    Kernel("val_guard", E, "Engine.validate_model_at_interval", ["iter_idx", "val_steps", "total_iter"],
           "(fun i c t => decide (i ≥ 5) && (Int.fmod i c == 0 || i + 1 == t))",
           _call_guard("func", 1, {**_B, "self.cfg.training.validation_steps": "val_steps"}), ret_type="Bool",
           imports=("DirectVerif.Model.C15Engine",)),
    Kernel("log_guard", E, "Engine.write_to_logs_at_interval", ["iter_idx", "val_steps", "total_iter"],
           "(fun i c t => decide (i ≥ 5) && (Int.fmod i 20 == 0 || Int.fmod i c == 0 || i + 1 == t))",
           _call_guard("self.write_to_logs", 0, {**_B, "self.cfg.training.validation_steps": "val_steps"}), ret_type="Bool",
           imports=("DirectVerif.Model.C15Engine",)),
])
