"""C15 — translation of the checkpointing code.

* `saveStmts`: the statement table of `Checkpointer.save` (which file is opened for writing, what is written into
  it, which `os.replace` follows, in which order) as Lean data (`Ckpt.Stmt`);
* `start_iter`, `kill_label`, `kill_guard`, `ckpt_label`, `ckpt_guard`: the integer arithmetic of resume, of the kill
  path and of the checkpoint interval in `direct/engine.py`;
* `warmup_factor_at`, `multistep_lr`, `cosine_lr`: the closed forms of `direct/data/lr_scheduler.py` over the rationals
  (Python floats are read as the rationals they denote; `math.cos(math.pi * a / b)` is the uninterpreted `cosPi a b`).
"""
from __future__ import annotations

import ast
from fractions import Fraction

from ..gen import EXTRA, REPO, Kernel, Untranslatable, assign_value, register
from ..pyexpr import ExprTr, emit_def, find_function, parse_file

CK = "direct/checkpointer.py"
E = "direct/engine.py"
LR = "direct/data/lr_scheduler.py"
TRAIN = ("DirectVerif.Model.Train",)


# --------------------------------------------------------------------------------------------------
# statement table of Checkpointer.save
def _render(node: ast.AST) -> str | None:
    """text of a path literal / f-string with `{…}` for the formatted values"""
    if isinstance(node, ast.Constant) and isinstance(node.value, str):
        return node.value
    if isinstance(node, ast.JoinedStr):
        out = ""
        for v in node.values:
            if isinstance(v, ast.Constant):
                out += str(v.value)
            else:
                out += "{" + ast.unparse(v.value) + "}"
        return out
    return None


def _kind_of_text(t: str) -> str:
    if t == "model_{iteration}.pt":
        return ".model"
    if t == "model_{iteration}.pt.tmp":
        return ".modelTmp"
    if t == "last_model.txt":
        return ".last"
    if t == "last_model.txt.tmp":
        return ".lastTmp"
    raise Untranslatable(f"unknown file name `{t}`")


def path_kind(node: ast.AST, env: dict[str, ast.AST], depth: int = 0) -> str:
    if depth > 8:
        raise Untranslatable("path expression too deep")
    t = _render(node)
    if t is not None:
        return _kind_of_text(t)
    if isinstance(node, ast.Name):
        if node.id not in env:
            raise Untranslatable(f"path variable `{node.id}` is not a local of save")
        return path_kind(env[node.id], env, depth + 1)
    if isinstance(node, ast.BinOp) and isinstance(node.op, ast.Div):     # directory / name
        return path_kind(node.right, env, depth + 1)
    if isinstance(node, ast.Call) and ast.unparse(node.func) in ("str", "pathlib.Path", "Path", "os.fspath") and node.args:
        return path_kind(node.args[0], env, depth + 1)
    raise Untranslatable(f"cannot resolve path `{ast.unparse(node)}`")


def save_table(fn: ast.FunctionDef) -> list[str]:
    env: dict[str, ast.AST] = {}
    out: list[str] = []

    def handle_call(c: ast.Call, open_files: dict[str, str]):
        f = ast.unparse(c.func)
        if f in ("os.replace", "os.rename", "shutil.move") and len(c.args) == 2:
            out.append(f".replace {path_kind(c.args[0], env)} {path_kind(c.args[1], env)}")
        elif f == "torch.save" and len(c.args) >= 2:
            tgt = c.args[1]
            if isinstance(tgt, ast.Name) and tgt.id in open_files:
                out.append(f".writePayload {open_files[tgt.id]}")
            else:   # torch.save(data, path) opens the path for writing itself
                k = path_kind(tgt, env)
                out.extend([f".openW {k}", f".writePayload {k}", f".closeF {k}"])
        elif isinstance(c.func, ast.Attribute) and c.func.attr == "write" and isinstance(c.func.value, ast.Name) \
                and c.func.value.id in open_files:
            if len(c.args) != 1 or ast.unparse(c.args[0]).replace(" ", "") != "str(iteration)":
                raise Untranslatable(f"`{ast.unparse(c)}` does not write str(iteration)")
            out.append(f".writeLabel {open_files[c.func.value.id]}")
        elif isinstance(c.func, ast.Attribute) and c.func.attr in ("write_text", "write_bytes", "unlink", "rename", "replace") \
                and f not in ("os.replace",) and not f.startswith("datetime"):
            raise Untranslatable(f"file operation `{ast.unparse(c)}` is not understood")

    def walk(stmts, open_files):
        for st in stmts:
            if isinstance(st, ast.Assign) and len(st.targets) == 1 and isinstance(st.targets[0], ast.Name):
                env[st.targets[0].id] = st.value
            if isinstance(st, ast.With):
                opened = dict(open_files)
                kinds = []
                for item in st.items:
                    ce = item.context_expr
                    if isinstance(ce, ast.Call) and ast.unparse(ce.func) == "open" and ce.args:
                        mode = ce.args[1].value if len(ce.args) > 1 and isinstance(ce.args[1], ast.Constant) else \
                            next((k.value.value for k in ce.keywords if k.arg == "mode" and isinstance(k.value, ast.Constant)), "r")
                        if "w" not in mode:
                            raise Untranslatable(f"`{ast.unparse(ce)}` is not opened for (truncating) writing")
                        k = path_kind(ce.args[0], env)
                        kinds.append(k)
                        out.append(f".openW {k}")
                        if isinstance(item.optional_vars, ast.Name):
                            opened[item.optional_vars.id] = k
                    else:
                        raise Untranslatable(f"unknown context manager `{ast.unparse(ce)}`")
                walk(st.body, opened)
                for k in reversed(kinds):
                    out.append(f".closeF {k}")
            elif isinstance(st, (ast.If, ast.For, ast.While, ast.Try)):
                before = len(out)
                walk(st.body, open_files)
                walk(getattr(st, "orelse", []), open_files)
                if len(out) != before and not (isinstance(st, ast.If) and ast.unparse(st.test) == "not self.save_to_disk"):
                    raise Untranslatable("file operation under a condition / loop")
            else:
                for c in sorted((n for n in ast.walk(st) if isinstance(n, ast.Call)), key=lambda n: (n.lineno, n.col_offset)):
                    handle_call(c, open_files)

    walk(fn.body, {})
    if not out:
        raise Untranslatable("no file operation found in save")
    return out


def _save_extra():
    name = "saveStmts"
    try:
        fn = find_function(parse_file(REPO / CK), "Checkpointer.save")
        rows = save_table(fn)
        return (f"/-- translated from `{CK}`:`Checkpointer.save` (order of the file operations) -/\n"
                f"def {name} : List Ckpt.Stmt := [{', '.join(rows)}]\n"), {name: "translated"}
    except Untranslatable as e:
        return (f"/-- SKIPPED ({e}); stands for the hand-written table -/\n"
                f"def {name} : List Ckpt.Stmt := Ckpt.saveTable\n"), {name: f"skipped: {e}"}


# --------------------------------------------------------------------------------------------------
# rational closed forms of the schedulers
class RatTr:
    """expressions over ℚ; `ints` are Int-typed Lean parameters (coerced), `rats` Rat-typed ones"""

    def __init__(self, ints: dict[str, str], rats: dict[str, str], nats: dict[str, str] | None = None):
        self.ints, self.rats, self.locals = ints, rats, {}
        self.nats = nats or {}

    def rat(self, n: ast.AST) -> str:
        t = ast.unparse(n)
        if isinstance(n, ast.Name) and n.id in self.locals:
            return self.locals[n.id]
        if t in self.rats:
            return self.rats[t]
        if t in self.ints:
            return f"(({self.ints[t]} : Int) : Rat)"
        if isinstance(n, ast.Constant) and isinstance(n.value, (int, float)) and not isinstance(n.value, bool):
            f = Fraction(str(n.value))
            return f"({f.numerator} : Rat)" if f.denominator == 1 else f"(({f.numerator} : Rat) / {f.denominator})"
        if isinstance(n, ast.BinOp):
            if isinstance(n.op, ast.Pow):
                return f"({self.rat(n.left)} ^ {self.nat(n.right)})"
            a, b = self.rat(n.left), self.rat(n.right)
            op = {ast.Add: "+", ast.Sub: "-", ast.Mult: "*", ast.Div: "/"}.get(type(n.op))
            if op is None:
                raise Untranslatable(f"operator {type(n.op).__name__}")
            return f"({a} {op} {b})"
        if isinstance(n, ast.UnaryOp) and isinstance(n.op, ast.USub):
            return f"(-{self.rat(n.operand)})"
        if isinstance(n, ast.Call) and ast.unparse(n.func) == "math.cos" and len(n.args) == 1:
            a = n.args[0]   # math.pi * x / y
            if (isinstance(a, ast.BinOp) and isinstance(a.op, ast.Div) and isinstance(a.left, ast.BinOp)
                    and isinstance(a.left.op, ast.Mult) and ast.unparse(a.left.left) == "math.pi"):
                return f"(cosPi {self.int(a.left.right)} {self.int(a.right)})"
            raise Untranslatable(f"cosine argument `{ast.unparse(a)}`")
        raise Untranslatable(f"rational expression `{t}`")

    def int(self, n: ast.AST) -> str:
        t = ast.unparse(n)
        if t in self.ints:
            return self.ints[t]
        if isinstance(n, ast.Constant) and isinstance(n.value, int):
            return f"({n.value} : Int)"
        raise Untranslatable(f"integer expression `{t}`")

    def nat(self, n: ast.AST) -> str:
        t = ast.unparse(n)
        if t in self.nats:
            return self.nats[t]
        if isinstance(n, ast.Call) and ast.unparse(n.func) == "bisect_right" and len(n.args) == 2:
            a = ast.unparse(n.args[0])
            if a != "self.milestones":
                raise Untranslatable(f"bisect_right over `{a}`")
            return f"(Train.Sched.bisectRight milestones {self.int(n.args[1])})"
        if isinstance(n, ast.Constant) and isinstance(n.value, int) and n.value >= 0:
            return str(n.value)
        raise Untranslatable(f"exponent `{t}`")

    def cond(self, n: ast.AST) -> str:
        if isinstance(n, ast.Compare) and len(n.ops) == 1:
            l, r = n.left, n.comparators[0]
            if isinstance(r, ast.Constant) and isinstance(r.value, str):        # method == "linear"
                if not isinstance(n.ops[0], ast.Eq) or ast.unparse(l) != "method":
                    raise Untranslatable(f"condition `{ast.unparse(n)}`")
                ctor = {"constant": ".constant", "linear": ".linear"}.get(r.value)
                if ctor is None:
                    raise Untranslatable(f"unknown method literal {r.value!r}")
                return f"method = {ctor}"
            sym = {ast.GtE: "≥", ast.Gt: ">", ast.LtE: "≤", ast.Lt: "<", ast.Eq: "="}.get(type(n.ops[0]))
            if sym is None:
                raise Untranslatable(f"condition `{ast.unparse(n)}`")
            return f"{self.int(l)} {sym} {self.int(r)}"
        raise Untranslatable(f"condition `{ast.unparse(n)}`")

    def body(self, stmts: list[ast.stmt]) -> str:
        """`if c: return e` chains, assignments, `raise` → an `Option Rat` term"""
        if not stmts:
            raise Untranslatable("function falls off its end")
        st, rest = stmts[0], stmts[1:]
        if isinstance(st, ast.Expr) and isinstance(st.value, ast.Constant):      # docstring
            return self.body(rest)
        if isinstance(st, ast.Return):
            return f"some {self.rat(st.value)}"
        if isinstance(st, ast.Raise):
            return "none"
        if isinstance(st, ast.Assign) and len(st.targets) == 1 and isinstance(st.targets[0], ast.Name):
            v = self.rat(st.value)
            name = st.targets[0].id
            self.locals[name] = name
            return f"let {name} : Rat := {v}\n  {self.body(rest)}"
        if isinstance(st, ast.If) and not st.orelse:
            c = self.cond(st.test)
            saved = dict(self.locals)
            then = self.body(st.body)
            self.locals = saved
            return f"if {c} then {then} else\n  {self.body(rest)}"
        raise Untranslatable(f"statement `{ast.unparse(st).splitlines()[0]}`")


def _warmup_build(k: Kernel, fn: ast.FunctionDef) -> str:
    args = [a.arg for a in fn.args.args]
    if args != ["method", "curr_iter", "warmup_iters", "warmup_factor"]:
        raise Untranslatable(f"unexpected signature {args}")
    tr = RatTr({"curr_iter": "curr_iter", "warmup_iters": "warmup_iters"}, {"warmup_factor": "warmup_factor"})
    body = tr.body(fn.body)
    return (f"def {k.name} (method : Train.Sched.Warmup) (curr_iter warmup_iters : Int) (warmup_factor : Rat) : Option Rat :=\n"
            f"  {body}\n")


def _get_lr_element(fn: ast.FunctionDef) -> tuple[ast.AST, list[str]]:
    """the element expression of the list comprehension returned by get_lr, and the argument texts of the call to
    `_get_warmup_factor_at_iter`"""
    call_args = None
    for n in ast.walk(fn):
        if isinstance(n, ast.Call) and ast.unparse(n.func) == "_get_warmup_factor_at_iter":
            call_args = [ast.unparse(a) for a in n.args]
    ret = next((s for s in fn.body if isinstance(s, ast.Return)), None)
    if call_args is None or ret is None or not isinstance(ret.value, ast.ListComp):
        raise Untranslatable("get_lr is not `warmup_factor = …; return [… for base_lr in self.base_lrs]`")
    lc = ret.value
    if len(lc.generators) != 1 or ast.unparse(lc.generators[0].target) != "base_lr" \
            or ast.unparse(lc.generators[0].iter) != "self.base_lrs" or lc.generators[0].ifs:
        raise Untranslatable("unexpected comprehension in get_lr")
    if call_args != ["self.warmup_method", "self.last_epoch", "self.warmup_iterations", "self.warmup_factor"]:
        raise Untranslatable(f"warm-up factor computed from {call_args}")
    return lc.elt, call_args


def _multistep_build(k: Kernel, fn: ast.FunctionDef) -> str:
    elt, _ = _get_lr_element(fn)
    tr = RatTr({"self.last_epoch": "last_epoch"}, {"base_lr": "base_lr", "warmup_factor": "warmup_factor", "self.gamma": "gamma"})
    return (f"def {k.name} (base_lr warmup_factor gamma : Rat) (milestones : List Int) (last_epoch : Int) : Rat :=\n"
            f"  {tr.rat(elt)}\n")


def _cosine_build(k: Kernel, fn: ast.FunctionDef) -> str:
    elt, _ = _get_lr_element(fn)
    tr = RatTr({"self.last_epoch": "last_epoch", "self.max_iters": "max_iters"},
               {"base_lr": "base_lr", "warmup_factor": "warmup_factor"})
    return (f"def {k.name} (cosPi : Int → Int → Rat) (base_lr warmup_factor : Rat) (max_iters last_epoch : Int) : Rat :=\n"
            f"  {tr.rat(elt)}\n")


def _sched_extra():
    chunks, status = [], {}
    specs = [
        ("warmup_factor_at", "_get_warmup_factor_at_iter", _warmup_build,
         "def warmup_factor_at (method : Train.Sched.Warmup) (curr_iter warmup_iters : Int) (warmup_factor : Rat) : Option Rat :=\n"
         "  Train.Sched.warmupFactorAt method curr_iter warmup_iters warmup_factor\n"),
        ("multistep_lr", "WarmupMultiStepLR.get_lr", _multistep_build,
         "def multistep_lr (base_lr warmup_factor gamma : Rat) (milestones : List Int) (last_epoch : Int) : Rat :=\n"
         "  base_lr * warmup_factor * gamma ^ Train.Sched.bisectRight milestones last_epoch\n"),
        ("cosine_lr", "WarmupCosineLR.get_lr", _cosine_build,
         "def cosine_lr (cosPi : Int → Int → Rat) (base_lr warmup_factor : Rat) (max_iters last_epoch : Int) : Rat :=\n"
         "  base_lr * warmup_factor * (1 / 2) * (1 + cosPi last_epoch max_iters)\n"),
    ]
    tree = None
    for name, func, build, fallback in specs:
        try:
            tree = tree or parse_file(REPO / LR)
            src = build(Kernel(name, LR, func, [], ""), find_function(tree, func))
            chunks.append(f"/-- translated from `{LR}`:`{func}` -/\n{src}")
            status[name] = "translated"
        except Untranslatable as e:
            chunks.append(f"/-- SKIPPED ({e}); stands for the hand-written model -/\n{fallback}")
            status[name] = f"skipped: {e}"
    return "\n".join(chunks), status


def _c15_extra():
    t1, s1 = _save_extra()
    t2, s2 = _sched_extra()
    return t1 + "\n" + t2, {**s1, **s2}


EXTRA["C15"] = _c15_extra


# --------------------------------------------------------------------------------------------------
# integer kernels of engine.py
def _save_call(fn: ast.FunctionDef):
    """(call `self.checkpointer.save(arg)`, enclosing if-tests)"""
    found = []

    def walk(stmts, tests):
        for st in stmts:
            if isinstance(st, ast.If):
                walk(st.body, tests + [st.test])
                walk(st.orelse, tests)
            else:
                for c in ast.walk(st):
                    if isinstance(c, ast.Call) and ast.unparse(c.func) == "self.checkpointer.save":
                        found.append((c, tests))
    walk(fn.body, [])
    if len(found) != 1 or len(found[0][0].args) != 1:
        raise Untranslatable("expected exactly one `self.checkpointer.save(<label>)`")
    return found[0]


_B = {"iter_idx": "iter_idx", "total_iter": "total_iter",
      "self.cfg.training.checkpointer.checkpoint_steps": "ck_steps"}


def _save_label(k: Kernel, fn: ast.FunctionDef) -> str:
    c, _ = _save_call(fn)
    return emit_def(k.name, k.params, [], ExprTr(_B).int(c.args[0]), "Int")


def _save_guard(k: Kernel, fn: ast.FunctionDef) -> str:
    _, tests = _save_call(fn)
    if not tests:
        return emit_def(k.name, k.params, [], "true", "Bool")
    tr = ExprTr(_B)
    return emit_def(k.name, k.params, [], "(" + " && ".join(tr.bool(t) for t in tests) + ")", "Bool")


register("C15", [
    Kernel("start_iter", E, "Engine.train", ["label"], "Train.resumeStart",
           assign_value({"checkpoint['iteration']": "label"}, "start_iter", nth=1), imports=TRAIN),
    Kernel("kill_label", E, "Engine.checkpoint_and_write_to_logs", ["iter_idx"], "Train.killLabel", _save_label, imports=TRAIN),
    Kernel("kill_guard", E, "Engine.checkpoint_and_write_to_logs", ["iter_idx"], "Train.killGuard", _save_guard,
           ret_type="Bool", imports=TRAIN),
    Kernel("ckpt_label", E, "Engine.checkpoint_model_at_interval", ["iter_idx"], "(fun i => i)", _save_label, imports=TRAIN),
    Kernel("ckpt_guard", E, "Engine.checkpoint_model_at_interval", ["iter_idx", "ck_steps", "total_iter"],
           "(fun i c t => decide (i ≥ 5) && (Int.fmod i c == 0 || i + 1 == t))", _save_guard, ret_type="Bool", imports=TRAIN),
])
