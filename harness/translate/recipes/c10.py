"""Per-property translation recipes (see gen.py)."""
from __future__ import annotations

import ast

from ..gen import (EXTRA, Kernel, Untranslatable, all_stmts, assign_value, find_assign, find_for,
                  guard_condition, register, straightline)
from ..pyexpr import ExprTr, emit_def, translate_block

T = "direct/data/transforms.py"
CROP = ("DirectVerif.Model.Crop",)
SHIFT = ("DirectVerif.Model.Shift",)

# =================================================================================================
# C10
_cc_binds = {"data.shape[-2]": "dn2", "shape[-2]": "sn2", "data.shape[-1]": "dn1", "shape[-1]": "sn1"}
_cc_params = ["dn2", "sn2", "dn1", "sn1"]


def _loop_body(nth=0):
    return lambda fn: find_for(fn, nth).body


def _pad_list_build(k: Kernel, fn: ast.FunctionDef) -> str:
    """pad_tensor: per-axis (target_dim, input_dim) -> the two values `extend`ed, and whether the
    flat list is reversed before `F.pad`."""
    loop = find_for(fn, 0)
    tgt = ast.unparse(loop.target)
    if "target_dim" not in tgt or "input_dim" not in tgt:
        raise Untranslatable(f"unexpected loop target `{tgt}`")
    it = ast.unparse(loop.iter).replace(" ", "")
    if "zip(target_shape,input_shape)" not in it:
        raise Untranslatable(f"unexpected loop iterable `{it}`")
    tr = ExprTr({"target_dim": "t", "input_dim": "i"})
    lets, _ = translate_block(loop.body, tr, [])
    ext = None
    for st in loop.body:
        if (isinstance(st, ast.Expr) and isinstance(st.value, ast.Call)
                and ast.unparse(st.value.func) == "pad.extend" and len(st.value.args) == 1
                and isinstance(st.value.args[0], (ast.List, ast.Tuple)) and len(st.value.args[0].elts) == 2):
            ext = st.value.args[0].elts
    if ext is None:
        raise Untranslatable("`pad.extend([a, b])` not found in loop")
    a, b = tr.int(ext[0]), tr.int(ext[1])
    # is the list reversed afterwards?
    reversed_flag = False
    for st in fn.body:
        if isinstance(st, ast.Assign) and ast.unparse(st.targets[0]) == "pad":
            v = ast.unparse(st.value).replace(" ", "")
            if v == "pad[::-1]" or v == "list(reversed(pad))":
                reversed_flag = True
            elif v != "[]":
                raise Untranslatable(f"unexpected assignment `pad = {v}`")
    # F.pad call must receive `pad`
    ok = any(isinstance(n, ast.Call) and ast.unparse(n.func).endswith("functional.pad") and len(n.args) >= 2
             and ast.unparse(n.args[1]) == "pad" for n in ast.walk(fn))
    if not ok:
        raise Untranslatable("call `torch.nn.functional.pad(input_image, pad, …)` not found")
    body = "\n".join("    " + l for l in lets)
    rev = ".reverse" if reversed_flag else ""
    return (
        f"def {k.name} (dims : List (Int × Int)) : List Int :=\n"
        f"  (dims.flatMap fun (t, i) =>\n{body}\n    [{a}, {b}]){rev}\n"
    )


def _pad_list_fallback(k: Kernel) -> str:
    return f"def {k.name} (dims : List (Int × Int)) : List Int := Crop.padPairs false dims\n"


register("C10", [
    Kernel("center_crop_width_lower", T, "center_crop", _cc_params, "(fun dn2 sn2 _ _ => Crop.centerCropLower dn2 sn2)",
           straightline(_cc_binds, "width_lower"), imports=CROP),
    Kernel("center_crop_width_upper", T, "center_crop", _cc_params,
           "(fun dn2 sn2 _ _ => Crop.centerCropLower dn2 sn2 + sn2)", straightline(_cc_binds, "width_upper"), imports=CROP),
    Kernel("center_crop_height_lower", T, "center_crop", _cc_params, "(fun _ _ dn1 sn1 => Crop.centerCropLower dn1 sn1)",
           straightline(_cc_binds, "height_lower"), imports=CROP),
    Kernel("center_crop_height_upper", T, "center_crop", _cc_params,
           "(fun _ _ dn1 sn1 => Crop.centerCropLower dn1 sn1 + sn1)", straightline(_cc_binds, "height_upper"), imports=CROP),
    Kernel("center_crop_rejects", T, "center_crop", _cc_params,
           "(fun dn2 sn2 dn1 sn1 => !(Crop.centerCropOk dn2 sn2) || !(Crop.centerCropOk dn1 sn1))",
           guard_condition(_cc_binds, 0), ret_type="Bool", imports=CROP),
    Kernel("complex_center_crop_start", T, "complex_center_crop", ["n", "s"], "Crop.cccStart",
           assign_value({"image_shape[idx + offset]": "n", "shape[idx]": "s"}, "bbox[idx + offset]"), imports=CROP),
    Kernel("complex_center_crop_size", T, "complex_center_crop", ["n", "s"], "(fun _ s => s)",
           assign_value({"image_shape[idx + offset]": "n", "shape[idx]": "s"}, "bbox[len(image_shape) + idx + offset]"),
           imports=CROP),
    Kernel("pad_tensor_before", T, "pad_tensor", ["target_dim", "input_dim"], "Crop.padBefore",
           straightline({"target_dim": "target_dim", "input_dim": "input_dim"}, "pad_before", _loop_body(0)), imports=CROP),
    Kernel("pad_tensor_after", T, "pad_tensor", ["target_dim", "input_dim"], "Crop.padAfter",
           straightline({"target_dim": "target_dim", "input_dim": "input_dim"}, "pad_after", _loop_body(0)), imports=CROP),
])


def _c10_extra():
    from ..gen import REPO, find_function, parse_file

    k = Kernel("pad_tensor_pad_list", T, "pad_tensor", [], "")
    try:
        fn = find_function(parse_file(REPO / T), "pad_tensor")
        return f"/-- translated from `{T}`:`pad_tensor` (loop + reversal) -/\n" + _pad_list_build(k, fn), {k.name: "translated"}
    except Untranslatable as e:
        return f"/-- SKIPPED ({e}) -/\n" + _pad_list_fallback(k), {k.name: f"skipped: {e}"}


EXTRA["C10"] = _c10_extra

