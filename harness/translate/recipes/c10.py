"""Per-property translation recipes (see gen.py)."""
from __future__ import annotations

import ast

from ..gen import (EXTRA, Kernel, Untranslatable, all_stmts, assign_value, find_assign, find_for,
                  guard_condition, register, straightline)
from ..pyexpr import ExprTr, emit_def, translate_block

T = "direct/data/transforms.py"
CROP = ("DirectVerif.Model.Crop", "DirectVerif.Model.C10Modules")
SHIFT = ("DirectVerif.Model.Shift",)

# =================================================================================================
# C10
_cc_binds = {"data.shape[-2]": "dn2", "shape[-2]": "sn2", "data.shape[-1]": "dn1", "shape[-1]": "sn1"}
_cc_params = ["dn2", "sn2", "dn1", "sn1"]


def _loop_body(nth=0):
    return lambda fn: find_for(fn, nth).body


def _pad_list_build(k: Kernel, fn: ast.FunctionDef) -> str:
    """pad_tensor: per-axis (target_dim, input_dim) -> the two values `extend`ed, and whether the
    flat list is reversed before `F.pad`."""
    loop = find_for(fn, 0)
    tgt = ast.unparse(loop.target)
    if "target_dim" not in tgt or "input_dim" not in tgt:
        raise Untranslatable(f"unexpected loop target `{tgt}`")
    it = ast.unparse(loop.iter).replace(" ", "")
    if "zip(target_shape,input_shape)" not in it:
        raise Untranslatable(f"unexpected loop iterable `{it}`")
    tr = ExprTr({"target_dim": "t", "input_dim": "i"})
    lets, _ = translate_block(loop.body, tr, [])
    ext = None
    for st in loop.body:
        if (isinstance(st, ast.Expr) and isinstance(st.value, ast.Call)
                and ast.unparse(st.value.func) == "pad.extend" and len(st.value.args) == 1
                and isinstance(st.value.args[0], (ast.List, ast.Tuple)) and len(st.value.args[0].elts) == 2):
            ext = st.value.args[0].elts
    if ext is None:
        raise Untranslatable("`pad.extend([a, b])` not found in loop")
    a, b = tr.int(ext[0]), tr.int(ext[1])
    # is the list reversed afterwards?
    reversed_flag = False
    for st in fn.body:
        if st is loop:
            continue
        mentions_pad = any(isinstance(n, ast.Name) and n.id == "pad" for n in ast.walk(st))
        if not mentions_pad:
            continue
        text = ast.unparse(st).replace(" ", "")
        if isinstance(st, (ast.Assign, ast.AnnAssign)) and ast.unparse(
                st.targets[0] if isinstance(st, ast.Assign) else st.target) == "pad":
            v = ast.unparse(st.value).replace(" ", "")
            if v in ("pad[::-1]", "list(reversed(pad))", "list(pad[::-1])", "tuple(reversed(pad))", "tuple(pad[::-1])"):
                reversed_flag = not reversed_flag
            elif v not in ("[]", "list()"):
                raise Untranslatable(f"unexpected assignment `pad = {v}`")
        elif text == "pad.reverse()":
            reversed_flag = not reversed_flag
        elif "functional.pad(" in text or "F.pad(" in text:
            continue
        else:
            # any other use of `pad` (a construct we do not understand) -> do not guess
            raise Untranslatable(f"unexpected statement using `pad`: `{ast.unparse(st)[:80]}`")
    # F.pad call must receive `pad`
    ok = any(isinstance(n, ast.Call) and (ast.unparse(n.func).endswith("functional.pad") or ast.unparse(n.func) == "F.pad")
             and ((len(n.args) >= 2 and ast.unparse(n.args[1]) == "pad")
                  or any(kw.arg == "pad" and ast.unparse(kw.value) == "pad" for kw in n.keywords)) for n in ast.walk(fn))
    if not ok:
        raise Untranslatable("call `torch.nn.functional.pad(input_image, pad, …)` not found")
    body = "\n".join("    " + l for l in lets)
    rev = ".reverse" if reversed_flag else ""
    return (
        f"def {k.name} (dims : List (Int × Int)) : List Int :=\n"
        f"  (dims.flatMap fun (t, i) =>\n{body}\n    [{a}, {b}]){rev}\n"
    )


def _pad_list_fallback(k: Kernel) -> str:
    return f"def {k.name} (dims : List (Int × Int)) : List Int := Crop.padPairs false dims\n"


from . import c10_inline as IL

_pt = {"target_dim": "target_dim", "input_dim": "input_dim"}
register("C10", [
    # the bounds of the returned window `data[..., a:b, c:d]` (names of locals and helper extraction do not matter)
    Kernel("center_crop_width_lower", T, "center_crop", _cc_params, "(fun dn2 sn2 _ _ => Crop.centerCropLower dn2 sn2)",
           IL.return_slice_bound(_cc_binds, 2, "lower"), imports=CROP),
    Kernel("center_crop_width_upper", T, "center_crop", _cc_params,
           "(fun dn2 sn2 _ _ => Crop.centerCropLower dn2 sn2 + sn2)", IL.return_slice_bound(_cc_binds, 2, "upper"), imports=CROP),
    Kernel("center_crop_height_lower", T, "center_crop", _cc_params, "(fun _ _ dn1 sn1 => Crop.centerCropLower dn1 sn1)",
           IL.return_slice_bound(_cc_binds, 1, "lower"), imports=CROP),
    Kernel("center_crop_height_upper", T, "center_crop", _cc_params,
           "(fun _ _ dn1 sn1 => Crop.centerCropLower dn1 sn1 + sn1)", IL.return_slice_bound(_cc_binds, 1, "upper"), imports=CROP),
    Kernel("center_crop_rejects", T, "center_crop", _cc_params,
           "(fun dn2 sn2 dn1 sn1 => !(Crop.centerCropOk dn2 sn2) || !(Crop.centerCropOk dn1 sn1))",
           guard_condition(_cc_binds, 0), ret_type="Bool", imports=CROP),
    Kernel("complex_center_crop_start", T, "complex_center_crop", ["n", "s"], "Crop.cccStart",
           IL.assign_rhs({"image_shape[idx + offset]": "n", "shape[idx]": "s"}, "bbox[idx + offset]"), imports=CROP),
    Kernel("complex_center_crop_size", T, "complex_center_crop", ["n", "s"], "(fun _ s => s)",
           IL.assign_rhs({"image_shape[idx + offset]": "n", "shape[idx]": "s"}, "bbox[len(image_shape) + idx + offset]"),
           imports=CROP),
    # per-axis amounts: looked for in the loop body and in the private helpers it calls
    Kernel("pad_tensor_before", T, "pad_tensor", ["target_dim", "input_dim"], "Crop.padBefore",
           IL.local_value(_pt, "pad_before", _loop_body(0)), imports=CROP),
    Kernel("pad_tensor_after", T, "pad_tensor", ["target_dim", "input_dim"], "Crop.padAfter",
           IL.local_value(_pt, "pad_after", _loop_body(0)), imports=CROP),
])


def _c10_extra():
    from ..gen import REPO, find_function, parse_file

    k = Kernel("pad_tensor_pad_list", T, "pad_tensor", [], "")
    try:
        fn = find_function(parse_file(REPO / T), "pad_tensor")
        k.file = T
        return (f"/-- translated from `{T}`:`pad_tensor` (the list handed to F.pad, as built: iteration order, pair, reversals) -/\n"
                + IL.pad_list(k, fn), {k.name: "translated"})
    except Untranslatable as e:
        return f"/-- SKIPPED ({e}) -/\n" + _pad_list_fallback(k), {k.name: f"skipped: {e}"}


EXTRA["C10"] = _c10_extra



# -------------------------------------------------------------------------------------------------
# crop_to_bbox: numpy vector code, translated element-wise (every vector variable is read as its
# component on one axis: bbox_coords -> coord, bbox_size -> size, np.array(data.shape) -> n).
def _vec_expr(tr: ExprTr, node: ast.AST) -> str:
    """Element-wise reading of a numpy vector expression."""
    if isinstance(node, ast.Call) and isinstance(node.func, ast.Attribute) and node.func.attr == "copy" and not node.args:
        return _vec_expr(tr, node.func.value)
    if isinstance(node, ast.Call) and ast.unparse(node.func) in ("np.array", "np.asarray") and len(node.args) == 1:
        return tr.int(node.args[0])
    if isinstance(node, ast.UnaryOp) and isinstance(node.op, ast.USub):
        return f"(-{_vec_expr(tr, node.operand)})"
    if isinstance(node, ast.BinOp) and isinstance(node.op, (ast.Add, ast.Sub)):
        op = "+" if isinstance(node.op, ast.Add) else "-"
        return f"({_vec_expr(tr, node.left)} {op} {_vec_expr(tr, node.right)})"
    return tr.int(node)


def _bbox_build(which: str):
    def build(k: Kernel, fn: ast.FunctionDef) -> str:
        tr = ExprTr({"data.shape": "n"})
        lets: list[str] = []
        version: dict[str, int] = {}
        comps: dict[str, ast.ListComp] = {}

        def bind(name, rhs):
            version[name] = version.get(name, 0) + 1
            ident = name if version[name] == 1 else f"{name}_{version[name]}"
            lets.append(f"let {ident} : Int := {rhs}")
            tr.locals[name] = ident

        for st in fn.body:
            # bbox_coords, bbox_size = np.asarray(bbox[:ndim]), np.asarray(bbox[ndim:])
            if (isinstance(st, ast.Assign) and isinstance(st.targets[0], ast.Tuple)
                    and [ast.unparse(e) for e in st.targets[0].elts] == ["bbox_coords", "bbox_size"]):
                vals = [ast.unparse(v).replace(" ", "") for v in st.value.elts]
                if vals != ["np.asarray(bbox[:ndim])", "np.asarray(bbox[ndim:])"]:
                    raise Untranslatable(f"unexpected unpacking of bbox: {vals}")
                tr.binds["bbox_coords"] = "coord"
                tr.binds["bbox_size"] = "size"
                continue
            if isinstance(st, (ast.Assign, ast.AnnAssign)) and isinstance(getattr(st, "targets", [getattr(st, "target", None)])[0], ast.Name):
                tgt = st.targets[0].id if isinstance(st, ast.Assign) else st.target.id
                if st.value is None:
                    continue
                if isinstance(st.value, ast.ListComp):
                    comps[tgt] = st.value
                    continue
                if tgt in ("l_offset", "r_offset"):
                    bind(tgt, _vec_expr(tr, st.value))
                continue
            # V[V < 0] = 0   (clamp)
            if (isinstance(st, ast.Assign) and isinstance(st.targets[0], ast.Subscript)
                    and isinstance(st.targets[0].value, ast.Name) and st.targets[0].value.id in ("l_offset", "r_offset")):
                v = st.targets[0].value.id
                cond = st.targets[0].slice
                if not (isinstance(cond, ast.Compare) and ast.unparse(cond.left) == v):
                    raise Untranslatable(f"unexpected masked assignment `{ast.unparse(st)}`")
                c = tr.bool(cond)
                bind(v, f"(if {c} then {tr.int(st.value)} else {tr.locals[v]})")
                continue
        name = {"region_lo": ("region_idx", 0), "region_hi": ("region_idx", 1),
                "patch_lo": ("patch_idx", 0), "patch_hi": ("patch_idx", 1),
                "l_offset": None, "r_offset": None}[which]
        if name is None:
            if which not in tr.locals:
                raise Untranslatable(f"`{which}` not found")
            return emit_def(k.name, k.params, lets, tr.locals[which])
        comp = comps.get(name[0])
        if comp is None:
            raise Untranslatable(f"list comprehension `{name[0]}` not found")
        # [slice(A, B) for i, j in zip(X, Y)]
        gen = comp.generators[0]
        if not (isinstance(comp.elt, ast.Call) and ast.unparse(comp.elt.func) == "slice" and len(comp.elt.args) == 2
                and isinstance(gen.iter, ast.Call) and ast.unparse(gen.iter.func) == "zip" and len(gen.iter.args) == 2
                and isinstance(gen.target, ast.Tuple) and len(gen.target.elts) == 2):
            raise Untranslatable(f"unexpected comprehension `{ast.unparse(comp)}`")
        i_name, j_name = (e.id for e in gen.target.elts)
        lets2 = list(lets)
        lets2.append(f"let {i_name} : Int := {_vec_expr(tr, gen.iter.args[0])}")
        lets2.append(f"let {j_name} : Int := {_vec_expr(tr, gen.iter.args[1])}")
        tr2 = ExprTr(dict(tr.binds))
        tr2.locals = dict(tr.locals)
        tr2.locals[i_name] = i_name
        tr2.locals[j_name] = j_name
        return emit_def(k.name, k.params, lets2, tr2.int(comp.elt.args[name[1]]))
    return build


BBOX = "direct/data/bbox.py"
_bp = ["n", "coord", "size"]
register("C10", [
    Kernel("bbox_l_offset", BBOX, "crop_to_bbox", _bp, "(fun _ coord _ => Crop.bboxLOff coord)", _bbox_build("l_offset"), imports=CROP),
    Kernel("bbox_r_offset", BBOX, "crop_to_bbox", _bp, "(fun n coord size => Crop.bboxROff n coord size)", _bbox_build("r_offset"), imports=CROP),
    Kernel("bbox_region_lo", BBOX, "crop_to_bbox", _bp, "(fun _ coord _ => coord + Crop.bboxLOff coord)", _bbox_build("region_lo"), imports=CROP),
    Kernel("bbox_region_hi", BBOX, "crop_to_bbox", _bp,
           "(fun n coord size => max (coord + Crop.bboxLOff coord) (coord + size - Crop.bboxROff n coord size))",
           _bbox_build("region_hi"), imports=CROP),
    Kernel("bbox_patch_lo", BBOX, "crop_to_bbox", _bp, "(fun _ coord _ => Crop.bboxLOff coord)", _bbox_build("patch_lo"), imports=CROP),
    Kernel("bbox_patch_hi", BBOX, "crop_to_bbox", _bp,
           "(fun n coord size => max (Crop.bboxLOff coord) (size - Crop.bboxROff n coord size))", _bbox_build("patch_hi"), imports=CROP),
])


# crop_to_largest: `crop_start_per_shape = [-(max_shape - np.asarray(_)) // 2 for _ in shapes]`, element-wise
def _largest_start(k: Kernel, fn: ast.FunctionDef) -> str:
    st = find_assign(fn, "crop_start_per_shape")
    comp = st.value
    if not (isinstance(comp, ast.ListComp) and len(comp.generators) == 1 and isinstance(comp.generators[0].target, ast.Name)
            and ast.unparse(comp.generators[0].iter) == "shapes"):
        raise Untranslatable(f"unexpected `crop_start_per_shape = {ast.unparse(comp)[:60]}`")
    var = comp.generators[0].target.id
    mx = find_assign(fn, "max_shape")
    if ast.unparse(mx.value).replace(" ", "") != "shapes.max(axis=0)":
        raise Untranslatable(f"unexpected `max_shape = {ast.unparse(mx.value)}`")
    boxes = find_assign(fn, "crop_boxes")
    if ast.unparse(boxes.value).replace(" ", "") != "[_.tolist()+max_shape.tolist()for_incrop_start_per_shape]":
        raise Untranslatable(f"unexpected `crop_boxes = {ast.unparse(boxes.value)[:80]}`")
    tr = ExprTr({"max_shape": "mx", var: "n", f"np.asarray({var})": "n", f"np.array({var})": "n"})
    return emit_def(k.name, k.params, [], _vec_expr(tr, comp.elt))


register("C10", [
    Kernel("crop_to_largest_start", BBOX, "crop_to_largest", ["mx", "n"], "Crop.cropToLargestStart", _largest_start, imports=CROP),
])


# -------------------------------------------------------------------------------------------------
# PadKspace / CropKspace / RescaleKspace (and PadCoilDimensionModule): structural tables (recipes/c10_tables.py)
#   * the chain of calls applied to the k-space, WITH the key it is read from and stored under (helper functions are
#     followed through their call-site bindings and parameter defaults)
#   * writes to instance / class / module state outside __init__
#   * every access to the sample dict with its (resolved) key expression
#   * the if-chain that resolves CropKspace's crop shape for the three argument forms
MT = "direct/data/mri_transforms.py"
MODULE_CLASSES = ["CropKspace", "RescaleKspace", "PadKspace", "PadCoilDimensionModule"]


def _lean_str(s: str) -> str:
    return '"' + s.replace("\\", "\\\\").replace('"', '\\"') + '"'


def _rows3(rows) -> str:
    return "[" + ",\n   ".join("(" + ", ".join(_lean_str(x) for x in r) + ")" for r in rows) + "]"


_CROP_VALUES = {
    "IntegerListOrTupleString(self.crop)": "crop",
    "sample[self.crop][:-1]": "keyVal.dropLast",
    "(kspace.shape[1],) + tuple(self.crop)": "(slices :: crop)",
    "(kspace.shape[1], *self.crop)": "(slices :: crop)",
    "tuple(self.crop)": "crop", "list(self.crop)": "crop", "self.crop": "crop",
}
_CROP_BOOL = {
    "isinstance(self.crop, IntegerListOrTupleString)": "(form == Crop.CropForm.intString)",
    "isinstance(self.crop, str)": "(form == Crop.CropForm.intString || form == Crop.CropForm.key)",
}
# a local that holds "the integers of the option, parsed when it is a string" may stand for `self.crop`
_CROP_ALIAS_DEFS = {
    "IntegerListOrTupleString(self.crop) if isinstance(self.crop, str) else self.crop",
    "IntegerListOrTupleString(self.crop) if isinstance(self.crop, IntegerListOrTupleString) else self.crop",
}
_CROP_SIG = "(form : Crop.CropForm) (ndim : Int) (crop keyVal : List Int) (slices : Int) : List Int"


def _crop_shape_def(tree) -> str:
    from . import c10_tables as tb

    aliases: dict[str, str] = {}
    rows = tb.crop_shape_rule(tree, aliases)
    values = dict(_CROP_VALUES)
    binds = {"kspace.ndim": "ndim", "len(self.crop)": "cropLen", "len(kspace.shape)": "ndim", "kspace.dim()": "ndim"}
    for name, text in aliases.items():
        if text not in _CROP_ALIAS_DEFS:
            raise Untranslatable(f"local `{name} = {text}` in the crop_shape chain")
        # NOTE: in the key branch the alias is not evaluated; in the other branches it is the parsed option
        values.update({f"(kspace.shape[1],) + tuple({name})": "(slices :: crop)", f"(kspace.shape[1], *{name})": "(slices :: crop)",
                       f"tuple({name})": "crop", f"list({name})": "crop", name: "crop"})
        binds[f"len({name})"] = "cropLen"
    tr = ExprTr(binds, _CROP_BOOL)
    out = "  let cropLen : Int := crop.length\n"
    for cond, val in rows:
        if val not in values:
            raise Untranslatable(f"crop_shape value `{val}`")
        if cond == "else":
            out += f"  {values[val]}\n"
            break
        c = tr.bool(ast.parse(cond, mode="eval").body)
        out += f"  if {c} then {values[val]} else\n"
    else:
        raise Untranslatable("crop_shape chain does not end in else")
    return f"def crop_shape_resolve {_CROP_SIG} :=\n{out}"


_prev_extra = EXTRA["C10"]


def _c10_extra2():
    from ..gen import REPO as _R, parse_file as _pf
    from . import c10_tables as tb

    text, status = _prev_extra()
    try:
        tree = _pf(_R / MT)
    except (SyntaxError, OSError) as e:
        tree, tree_err = None, e

    def guarded(f):
        if tree is None:
            raise Untranslatable(f"cannot parse {MT}: {tree_err}")
        return f()

    # ---- plans with key plumbing
    for cls, name, fallback, io_fb in (("PadKspace", "padKspacePlan", "Crop.padKspacePlan", "Crop.padKspaceIO"),
                                       ("CropKspace", "cropKspacePlan", "Crop.cropKspacePlan", "Crop.cropKspaceIO")):
        try:
            fl = guarded(lambda: tb.kspace_flow(tree, cls))
            items = ", ".join(_lean_str(p) for p in fl["plan"])
            text += (f"\n/-- translated from `{MT}`:`{cls}` (calls applied to the k-space, in order; helper functions and nested\n"
                     f"functions followed) -/\n"
                     f"def {name}Names : List String := [{items}]\n"
                     f"def {name} : Option (List Crop.KOp) := {name}Names.mapM Crop.KOp.ofString\n"
                     f"/-- the key expression the chain starts from (`kspace = sample[…]`) and the one it is stored under -/\n"
                     f"def {name}IONames : String × String := ({_lean_str(fl['read'])}, {_lean_str(fl['write'])})\n"
                     f"def {name}IO : Crop.KIO := ⟨Crop.KeyRef.ofString {name}IONames.1, Crop.KeyRef.ofString {name}IONames.2⟩\n"
                     f"/-- number of `return` statements in `{cls}.__call__` (1 = only the final one: no early exit that\n"
                     f"skips the plan) -/\ndef {name}Returns : Nat := {fl['returns']}\n")
            status[name] = "translated"
        except Untranslatable as e:
            text += (f"\n/-- SKIPPED ({e}) -/\ndef {name} : Option (List Crop.KOp) := some {fallback}\n"
                     f"def {name}IO : Crop.KIO := {io_fb}\ndef {name}Returns : Nat := 1\n")
            status[name] = f"skipped: {e}"
    try:
        fl = guarded(lambda: tb.kspace_flow(tree, "RescaleKspace"))
        text += (f"\n/-- translated from `{MT}`:`RescaleKspace`: keys of the k-space read and store -/\n"
                 f"def rescaleKspaceIONames : String × String := ({_lean_str(fl['read'])}, {_lean_str(fl['write'])})\n"
                 f"def rescaleKspaceIO : Crop.KIO := ⟨Crop.KeyRef.ofString rescaleKspaceIONames.1, "
                 f"Crop.KeyRef.ofString rescaleKspaceIONames.2⟩\n")
        status["rescaleKspaceIO"] = "translated"
    except Untranslatable as e:
        text += f"\n/-- SKIPPED ({e}) -/\ndef rescaleKspaceIO : Crop.KIO := Crop.rescaleKspaceIO\n"
        status["rescaleKspaceIO"] = f"skipped: {e}"
    # ---- state writes
    try:
        rows = guarded(lambda: tb.self_writes(tree, MODULE_CLASSES))
        text += (f"\n/-- translated from `{MT}`: writes to instance / class / module state in every method other than `__init__`\n"
                 f"(and the private helpers they call) of {', '.join(MODULE_CLASSES)}: (class, function, what) -/\n"
                 f"def moduleStateWrites : List (String × String × String) :=\n  {_rows3(rows)}\n")
        status["moduleStateWrites"] = f"translated ({len(rows)} rows)"
    except Untranslatable as e:
        text += f"\n/-- SKIPPED ({e}) -/\ndef moduleStateWrites : List (String × String × String) := []\n"
        status["moduleStateWrites"] = f"skipped: {e}"
    # ---- sample accesses
    try:
        rows = guarded(lambda: tb.key_accesses(tree, MODULE_CLASSES))
        text += (f"\n/-- translated from `{MT}`: every access to the sample dictionary, (class, read|write|escape, key expression);\n"
                 f"keys resolved through local aliases and through helper functions (call-site binding, parameter defaults) -/\n"
                 f"def moduleKeyAccess : List (String × String × String) :=\n  {_rows3(rows)}\n")
        status["moduleKeyAccess"] = f"translated ({len(rows)} rows)"
    except Untranslatable as e:
        text += f"\n/-- SKIPPED ({e}) -/\ndef moduleKeyAccess : List (String × String × String) := Crop.keyAccessModel\n"
        status["moduleKeyAccess"] = f"skipped: {e}"
    # ---- in-place operations on inputs
    try:
        from ..gen import find_function as _ff

        rows = []
        for rel, names in ((T, ["center_crop", "complex_center_crop", "complex_random_crop", "pad_tensor"]),
                           (BBOX, ["crop_to_bbox", "crop_to_largest"])):
            tr_ = _pf(_R / rel)
            for nm in names:
                rows += [(nm, w) for _, w in tb.inplace_on_inputs(_ff(tr_, nm))]
        for cname in MODULE_CLASSES:
            fn = guarded(lambda: tb.call_method(tb.class_def(tree, cname)))
            smp = [a.arg for a in fn.args.args if a.arg != "self"][:1]
            rows += [(f"{cname}.{fn.name}", w) for _, w in tb.inplace_on_inputs(fn, ("self", *smp))]
        text += (f"\n/-- translated: operations that could modify an argument in place (`x.op_()`, `out=`, augmented / item\n"
                 f"assignment on a parameter or a view of one) in the crop / pad primitives and the module calls -/\n"
                 f"def inplaceOnInputs : List (String × String) :=\n  ["
                 + ",\n   ".join(f"({_lean_str(a)}, {_lean_str(b)})" for a, b in rows) + "]\n")
        status["inplaceOnInputs"] = f"translated ({len(rows)} rows)"
    except (Untranslatable, SyntaxError, OSError) as e:
        text += f"\n/-- SKIPPED ({e}) -/\ndef inplaceOnInputs : List (String × String) := []\n"
        status["inplaceOnInputs"] = f"skipped: {e}"
    # ---- callers of the primitives: which module's function do they reach?
    try:
        rows = tb.primitive_callers(_R)
        text += ("\n/-- translated: every call of a crop / pad primitive inside `direct/`: (file, primitive, module it resolves to) -/\n"
                 f"def primitiveCallers : List (String × String × String) :=\n  {_rows3(rows)}\n")
        status["primitiveCallers"] = f"translated ({len(rows)} call sites)"
    except (Untranslatable, OSError) as e:
        text += f"\n/-- SKIPPED ({e}) -/\ndef primitiveCallers : List (String × String × String) := []\n"
        status["primitiveCallers"] = f"skipped: {e}"
    # ---- call edges: which primitive is each composite built on
    try:
        rows = tb.primitive_edges(_R)
        text += ("\n/-- translated: (caller, primitive) — the crop / pad primitive each composite function / module calls (private\n"
                 "helpers followed) -/\ndef primitiveEdges : List (String × String) :=\n  ["
                 + ",\n   ".join(f"({_lean_str(a)}, {_lean_str(b)})" for a, b in rows) + "]\n")
        status["primitiveEdges"] = f"translated ({len(rows)} edges)"
    except Untranslatable as e:
        text += f"\n/-- SKIPPED ({e}) -/\ndef primitiveEdges : List (String × String) := Crop.edgesRequired\n"
        status["primitiveEdges"] = f"skipped: {e}"
    # ---- dtype of the padded patch of crop_to_bbox
    try:
        from ..gen import find_function as _ff2

        rows = tb.bbox_patch_alloc(_ff2(_pf(_R / BBOX), "crop_to_bbox"))
        text += ("\n/-- translated from `direct/data/bbox.py`:`crop_to_bbox`: how the padded patch is allocated (constructor, kind) -/\n"
                 "def bboxPatchAllocNames : List (String × String) := ["
                 + ", ".join(f"({_lean_str(a)}, {_lean_str(b)})" for a, b in rows) + "]\n"
                 "def bboxPatchAlloc : Option (List Crop.PatchAlloc) := bboxPatchAllocNames.mapM fun r => Crop.PatchAlloc.ofString r.2\n")
        status["bboxPatchAlloc"] = f"translated ({len(rows)} allocations)"
    except (Untranslatable, SyntaxError, OSError) as e:
        text += (f"\n/-- SKIPPED ({e}) -/\ndef bboxPatchAlloc : Option (List Crop.PatchAlloc) := some [.full, .full]\n")
        status["bboxPatchAlloc"] = f"skipped: {e}"
    # ---- crop shape rule
    try:
        text += (f"\n/-- translated from `{MT}`:`CropKspace.__call__` (the if-chain assigning `crop_shape`) -/\n"
                 + guarded(lambda: _crop_shape_def(tree)))
        status["crop_shape_resolve"] = "translated"
    except Untranslatable as e:
        text += f"\n/-- SKIPPED ({e}) -/\ndef crop_shape_resolve {_CROP_SIG} :=\n  Crop.cropShapeResolve form ndim crop keyVal slices\n"
        status["crop_shape_resolve"] = f"skipped: {e}"
    return text, status


EXTRA["C10"] = _c10_extra2


# -------------------------------------------------------------------------------------------------
# PadCoilDimensionModule.forward: the guard chain (early returns / raise) and the number of zero coils, as an integer
# kernel; the operand order of the final torch.cat as a table
_PC_SIG = "(num cur : Int) (hasKey : Bool) : Int × Int"
_PC_CUR = {"data.shape[self.coil_dim]", "shape[self.coil_dim]", "sample[self.key].shape[self.coil_dim]"}
_PC_BOOL = {"not self.num_coils": "(num == 0)", "self.num_coils is None": "(num == 0)", "self.num_coils == 0": "(num == 0)",
            "self.key not in sample": "(!hasKey)", "not self.key in sample": "(!hasKey)"}


def _pad_coil_defs(tree) -> str:
    from . import c10_tables as tb

    fn = tb.call_method(tb.class_def(tree, "PadCoilDimensionModule"))
    binds = {"self.num_coils": "num"}
    shape_alias = {"data.shape"}
    out, count, cat, zeros_var = "", None, None, None
    for st in fn.body:
        if isinstance(st, ast.Expr) and isinstance(st.value, ast.Constant):
            continue                                                     # docstring
        if isinstance(st, ast.If):
            if st.orelse or len(st.body) != 1:
                raise Untranslatable(f"`if {ast.unparse(st.test)}` with else / several statements")
            b = st.body[0]
            if isinstance(b, ast.Return) and ast.unparse(b.value) == "sample":
                code = "(0, 0)"
            elif isinstance(b, ast.Raise):
                code = "(1, 0)"
            else:
                raise Untranslatable(f"body of `if {ast.unparse(st.test)}`: {ast.unparse(b)[:40]}")
            out += f"  if {ExprTr(binds, _PC_BOOL).bool(st.test)} then {code} else\n"
            continue
        if isinstance(st, ast.Assign) and len(st.targets) == 1:
            tgt, val = ast.unparse(st.targets[0]), ast.unparse(st.value)
            if tgt == "data" and val == "sample[self.key]":
                continue
            if isinstance(st.targets[0], ast.Name) and (val in _PC_CUR or any(val == f"{a}[self.coil_dim]" for a in shape_alias)):
                binds[tgt] = "cur"
                continue
            if isinstance(st.targets[0], ast.Name) and val in shape_alias:
                shape_alias.add(tgt)
                continue
            if tgt == "padding_data_shape" and val in {f"list({a}).copy()" for a in shape_alias} | {f"list({a})" for a in shape_alias}:
                continue
            if tgt == "padding_data_shape[self.coil_dim]":
                count = ExprTr(binds, _PC_BOOL).int(st.value)
                continue
            if isinstance(st.targets[0], ast.Name) and isinstance(st.value, ast.Call) and ast.unparse(st.value.func) == "torch.zeros" \
                    and st.value.args and ast.unparse(st.value.args[0]) == "padding_data_shape":
                zeros_var = tgt
                continue
            if tgt == "sample[self.key]" and isinstance(st.value, ast.Call) and ast.unparse(st.value.func) in ("torch.cat", "torch.concat") \
                    and st.value.args and isinstance(st.value.args[0], (ast.List, ast.Tuple)):
                kws = {k.arg: ast.unparse(k.value) for k in st.value.keywords}
                dim = kws.get("dim") or (ast.unparse(st.value.args[1]) if len(st.value.args) > 1 else None)
                if dim != "self.coil_dim":
                    raise Untranslatable(f"torch.cat along `{dim}`")
                cat = ["zeros" if ast.unparse(e) == zeros_var else ast.unparse(e) for e in st.value.args[0].elts]
                continue
        if isinstance(st, ast.Return) and ast.unparse(st.value) == "sample":
            continue
        raise Untranslatable(f"statement `{ast.unparse(st)[:60]}` in PadCoilDimensionModule.forward")
    if count is None or cat is None:
        raise Untranslatable("no `padding_data_shape[self.coil_dim] = …` / `sample[self.key] = torch.cat([...])`")
    return (f"def pad_coil_forward {_PC_SIG} :=\n{out}  (2, {count})\n"
            f"/-- operands of the final `torch.cat([...], dim=self.coil_dim)`, in source order -/\n"
            f"def padCoilCat : List String := [{', '.join(_lean_str(c) for c in cat)}]\n")


_prev_extra2 = EXTRA["C10"]


def _c10_extra3():
    from ..gen import REPO as _R, parse_file as _pf

    text, status = _prev_extra2()
    marker = "\nend DirectVerif.Gen.C10"
    try:
        body = _pad_coil_defs(_pf(_R / MT))
        add = (f"\n/-- translated from `{MT}`:`PadCoilDimensionModule.forward`: (branch, zero coils) — 0 = sample returned unchanged,\n"
               f"1 = raises, 2 = zeros concatenated -/\n" + body)
        status["pad_coil_forward"] = "translated"
    except (Untranslatable, SyntaxError, OSError) as e:
        add = (f"\n/-- SKIPPED ({e}) -/\ndef pad_coil_forward {_PC_SIG} :=\n  Crop.padCoilDecision num cur hasKey\n"
               f"def padCoilCat : List String := Crop.padCoilCatModel\n")
        status["pad_coil_forward"] = f"skipped: {e}"
    return text + add, status


EXTRA["C10"] = _c10_extra3
