"""Generate /verif/lean/DirectVerif/Gen/Cxx.lean from /repo's working tree.

Each property has a list of *kernels*; a kernel is a small recipe that locates a piece of integer /
boolean logic in the Python source and emits a Lean `def` for it.  When a recipe cannot understand
the (possibly refactored) source it emits the hand-written model definition instead and is reported
as `skipped`; the bridge lemma for it is then trivially true and the property rests on the
correspondence check for that kernel.
"""
from __future__ import annotations

import ast
import json
import os
import pathlib
import sys
from dataclasses import dataclass, field
from typing import Callable

from .pyexpr import ExprTr, Untranslatable, emit_def, find_function, parse_file, translate_block

VERIF = pathlib.Path(__file__).resolve().parent.parent.parent
REPO = pathlib.Path(os.environ.get("VERIF_REPO", "/repo")).resolve()
GEN_DIR = VERIF / "lean" / "DirectVerif" / "Gen"


@dataclass
class Kernel:
    name: str                      # Lean def name (inside namespace DirectVerif.Gen.Cxx)
    file: str                      # path under /repo
    func: str                      # qualified function name
    params: list[str]              # Lean parameter names (all Int)
    fallback: str                  # Lean term of the hand-written model, applied to params when skipped
    build: Callable[["Kernel", ast.FunctionDef], str] = None  # returns Lean source of the def
    ret_type: str = "Int"
    imports: tuple[str, ...] = ()


def all_stmts(fn: ast.AST):
    """All statements of a function in source order, descending into for/if/with bodies."""
    for st in getattr(fn, "body", []):
        yield st
        if isinstance(st, (ast.For, ast.While, ast.If, ast.With, ast.Try)):
            yield from all_stmts(st)
            for st2 in getattr(st, "orelse", []):
                yield st2
                yield from all_stmts(st2)


def find_assign(fn: ast.AST, target_text: str, nth: int = 0) -> ast.Assign:
    k = 0
    for st in all_stmts(fn):
        if isinstance(st, ast.Assign) and len(st.targets) == 1 and ast.unparse(st.targets[0]) == target_text:
            if k == nth:
                return st
            k += 1
    raise Untranslatable(f"assignment to `{target_text}` not found")


def find_for(fn: ast.AST, nth: int = 0) -> ast.For:
    k = 0
    for st in all_stmts(fn):
        if isinstance(st, ast.For):
            if k == nth:
                return st
            k += 1
    raise Untranslatable("for loop not found")


# ---- generic builders ---------------------------------------------------------------------------
def straightline(binds: dict[str, str], output: str, scope: Callable[[ast.FunctionDef], list] = None):
    """Kernel = value of local `output` after the straight-line part of the function."""

    def build(k: Kernel, fn: ast.FunctionDef) -> str:
        tr = ExprTr(binds)
        stmts = scope(fn) if scope else fn.body
        lets, loc = translate_block(stmts, tr, [output])
        return emit_def(k.name, k.params, lets, loc[output], k.ret_type)

    return build


def assign_value(binds: dict[str, str], target_text: str, nth: int = 0, arg: int | None = None,
                 pre: Callable[[ast.FunctionDef], list] = None):
    """Kernel = right-hand side of the assignment to `target_text` (a subscript, say), optionally the
    `arg`-th positional argument of the call on the right-hand side.  `pre` gives straight-line
    statements to execute first (their locals are in scope)."""

    def build(k: Kernel, fn: ast.FunctionDef) -> str:
        tr = ExprTr(binds)
        lets: list[str] = []
        if pre:
            lets, _ = translate_block(pre(fn), tr, [])
        st = find_assign(fn, target_text, nth)
        node = st.value
        if arg is not None:
            if not isinstance(node, ast.Call) or len(node.args) <= arg:
                raise Untranslatable(f"`{ast.unparse(node)}` is not a call with {arg + 1} positional arguments")
            node = node.args[arg]
        return emit_def(k.name, k.params, lets, tr.int(node), k.ret_type)

    return build


def guard_condition(binds: dict[str, str], nth: int = 0):
    """Kernel = the test of the nth `if …: raise` guard (Bool)."""

    def build(k: Kernel, fn: ast.FunctionDef) -> str:
        tr = ExprTr(binds)
        n = 0
        for st in all_stmts(fn):
            if isinstance(st, ast.If) and st.body and isinstance(st.body[0], ast.Raise):
                if n == nth:
                    return emit_def(k.name, k.params, [], tr.bool(st.test), "Bool")
                n += 1
        raise Untranslatable("guard not found")

    return build


# ---- registry -----------------------------------------------------------------------------------
REGISTRY: dict[str, list[Kernel]] = {}
EXTRA: dict[str, Callable[[], tuple[str, dict]]] = {}   # property -> extra generated text + status


def register(prop: str, kernels: list[Kernel]):
    REGISTRY.setdefault(prop, []).extend(kernels)


def generate(prop: str) -> dict:
    """Write Gen/<prop>.lean; return {kernel: 'translated'|'skipped: reason'}."""
    from . import recipes  # noqa: F401  (fills REGISTRY)

    recipes.load(prop)

    kernels = REGISTRY.get(prop, [])
    status: dict[str, str] = {}
    chunks: list[str] = []
    imports = {"DirectVerif.Model.Basic"}
    trees: dict[str, ast.Module] = {}
    for k in kernels:
        imports.update(k.imports)
        try:
            if os.environ.get("VERIF_FORCE_SKIP") == "1":
                # self-test of the bridge scripts: every kernel falls back to the hand-written model; the bridge lemmas
                # must still build (a `skipped` kernel may never break an obligation)
                raise Untranslatable("forced by VERIF_FORCE_SKIP")
            if k.file not in trees:
                trees[k.file] = parse_file(REPO / k.file)
            fn = find_function(trees[k.file], k.func)
            src = k.build(k, fn)
            status[k.name] = "translated"
            chunks.append(f"/-- translated from `{k.file}`:`{k.func}` -/\n{src}")
        except Untranslatable as e:
            status[k.name] = f"skipped: {e}"
            ps = " ".join(f"({p} : Int)" for p in k.params)
            args = " ".join(k.params)
            chunks.append(
                f"/-- SKIPPED ({e}); stands for the hand-written model, bridge is vacuous -/\n"
                f"def {k.name} {ps} : {k.ret_type} := {k.fallback} {args}\n"
            )
    if prop in EXTRA:
        text, st = EXTRA[prop]()
        chunks.append(text)
        status.update(st)
    head = "".join(f"import {m}\n" for m in sorted(imports))
    body = (
        f"{head}/-! GENERATED by harness/translate from the working tree of /repo — do not edit. -/\n"
        f"set_option linter.unusedVariables false\n"
        f"namespace DirectVerif.Gen.{prop}\nopen DirectVerif\n\n" + "\n".join(chunks) + f"\nend DirectVerif.Gen.{prop}\n"
    )
    GEN_DIR.mkdir(parents=True, exist_ok=True)
    out = GEN_DIR / f"{prop}.lean"
    if not out.exists() or out.read_text() != body:
        tmp = out.with_suffix(f".tmp{os.getpid()}")
        tmp.write_text(body)
        os.replace(tmp, out)
    return status


