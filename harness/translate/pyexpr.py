"""Python-AST -> Lean 4 translator for integer / boolean straight-line kernels.

Python semantics are kept: `//` -> Int.fdiv, `%` -> Int.fmod, `max/min` -> pyMax/pyMin, chained
comparisons, `and/or/not`, conditional expressions.  Everything that is not understood raises
`Untranslatable`; the caller then records the kernel as *skipped* (never as a broken obligation).
"""
from __future__ import annotations

import ast
import pathlib
import textwrap


class Untranslatable(Exception):
    pass


def find_function(tree: ast.AST, qualname: str) -> ast.FunctionDef:
    parts = qualname.split(".")
    node = tree
    for p in parts:
        found = None
        for child in ast.iter_child_nodes(node):
            if isinstance(child, (ast.FunctionDef, ast.ClassDef, ast.AsyncFunctionDef)) and child.name == p:
                found = child
                break
        if found is None:
            raise Untranslatable(f"definition {qualname!r} not found")
        node = found
    if not isinstance(node, ast.FunctionDef):
        raise Untranslatable(f"{qualname!r} is not a function")
    return node


def parse_file(path: pathlib.Path) -> ast.Module:
    try:
        import warnings
        with warnings.catch_warnings():
            warnings.simplefilter("ignore")
            return ast.parse(path.read_text())
    except (OSError, SyntaxError) as e:
        raise Untranslatable(f"cannot parse {path}: {e}")


class ExprTr:
    """Translate expressions.  `binds` maps the *source text* (ast.unparse) of leaf expressions
    (names, subscripts, attributes, calls) to Lean terms of type Int (or Bool for `bool_binds`)."""

    def __init__(self, binds: dict[str, str], bool_binds: dict[str, str] | None = None):
        self.binds = dict(binds)
        self.bool_binds = dict(bool_binds or {})
        self.locals: dict[str, str] = {}  # python local -> lean identifier (introduced by let)

    def leaf(self, node: ast.AST) -> str:
        text = ast.unparse(node)
        if isinstance(node, ast.Name) and node.id in self.locals:
            return self.locals[node.id]
        if text in self.binds:
            return self.binds[text]
        raise Untranslatable(f"unbound expression `{text}`")

    def int(self, node: ast.AST) -> str:
        if isinstance(node, ast.Constant):
            if isinstance(node.value, bool) or not isinstance(node.value, int):
                raise Untranslatable(f"non-integer constant {node.value!r}")
            return f"({node.value} : Int)"
        if isinstance(node, (ast.Name, ast.Subscript, ast.Attribute)):
            return self.leaf(node)
        if isinstance(node, ast.UnaryOp) and isinstance(node.op, ast.USub):
            return f"(-{self.int(node.operand)})"
        if isinstance(node, ast.UnaryOp) and isinstance(node.op, ast.UAdd):
            return self.int(node.operand)
        if isinstance(node, ast.BinOp):
            a, b = self.int(node.left), self.int(node.right)
            if isinstance(node.op, ast.Add):
                return f"({a} + {b})"
            if isinstance(node.op, ast.Sub):
                return f"({a} - {b})"
            if isinstance(node.op, ast.Mult):
                return f"({a} * {b})"
            if isinstance(node.op, ast.FloorDiv):
                return f"(Int.fdiv {a} {b})"
            if isinstance(node.op, ast.Mod):
                return f"(Int.fmod {a} {b})"
            raise Untranslatable(f"operator {type(node.op).__name__}")
        if isinstance(node, ast.Call):
            text = ast.unparse(node)
            if text in self.binds:
                return self.binds[text]
            if isinstance(node.func, ast.Name) and node.func.id in ("max", "min") and not node.keywords:
                if len(node.args) < 2:
                    raise Untranslatable("max/min over an iterable")
                fn = "pyMax" if node.func.id == "max" else "pyMin"
                acc = self.int(node.args[0])
                for a in node.args[1:]:
                    acc = f"({fn} {acc} {self.int(a)})"
                return acc
            if isinstance(node.func, ast.Name) and node.func.id == "int" and len(node.args) == 1:
                return self.int(node.args[0])
            if isinstance(node.func, ast.Name) and node.func.id == "abs" and len(node.args) == 1:
                a = self.int(node.args[0])
                return f"(if {a} < 0 then -{a} else {a})"
            raise Untranslatable(f"call `{text}`")
        if isinstance(node, ast.IfExp):
            return f"(if {self.bool(node.test)} then {self.int(node.body)} else {self.int(node.orelse)})"
        raise Untranslatable(f"expression `{ast.unparse(node)}`")

    _CMP = {ast.Lt: "<", ast.LtE: "≤", ast.Gt: ">", ast.GtE: "≥", ast.Eq: "==", ast.NotEq: "!="}

    def bool(self, node: ast.AST) -> str:
        text = ast.unparse(node)
        if text in self.bool_binds:
            return self.bool_binds[text]
        if isinstance(node, ast.Constant) and isinstance(node.value, bool):
            return "true" if node.value else "false"
        if isinstance(node, ast.BoolOp):
            op = " && " if isinstance(node.op, ast.And) else " || "
            return "(" + op.join(self.bool(v) for v in node.values) + ")"
        if isinstance(node, ast.UnaryOp) and isinstance(node.op, ast.Not):
            return f"(!{self.bool(node.operand)})"
        if isinstance(node, ast.Compare):
            parts = []
            left = node.left
            for op, right in zip(node.ops, node.comparators):
                if type(op) not in self._CMP:
                    raise Untranslatable(f"comparison {type(op).__name__}")
                sym = self._CMP[type(op)]
                a, b = self.int(left), self.int(right)
                if sym in ("==", "!="):
                    parts.append(f"({a} {sym} {b})")
                else:
                    parts.append(f"(decide ({a} {sym} {b}))")
                left = right
            return "(" + " && ".join(parts) + ")"
        # truthiness of an int
        try:
            return f"({self.int(node)} != 0)"
        except Untranslatable:
            raise Untranslatable(f"boolean expression `{text}`")


def lean_ident(name: str) -> str:
    return name if name not in {"end", "at", "from", "to", "open", "in", "then", "do", "fun", "let"} else name + "'"


def translate_block(
    stmts: list[ast.stmt],
    tr: ExprTr,
    outputs: list[str],
    allow_skip: tuple[type, ...] = (ast.Expr, ast.Raise, ast.Return, ast.Assert),
) -> tuple[list[str], dict[str, str]]:
    """Symbolically execute straight-line code.  Returns (`let` lines, python-name -> lean-ident).

    * `x = e` with a simple name target introduces `let x := e`;
    * `if c: raise …` (guards) and expression statements are skipped;
    * any other statement that assigns one of the names the outputs depend on makes the block
      untranslatable (so that moving logic into a construct we do not understand is never
      silently ignored)."""
    lets: list[str] = []
    assigned_elsewhere: set[str] = set()
    version: dict[str, int] = {}
    for st in stmts:
        if isinstance(st, ast.Assign) and len(st.targets) == 1 and isinstance(st.targets[0], ast.Name):
            name = st.targets[0].id
            try:
                rhs = tr.int(st.value)
            except Untranslatable:
                assigned_elsewhere.add(name)
                tr.locals.pop(name, None)
                continue
            version[name] = version.get(name, 0) + 1
            ident = lean_ident(name) if version[name] == 1 else f"{lean_ident(name)}_{version[name]}"
            lets.append(f"let {ident} : Int := {rhs}")
            tr.locals[name] = ident
            assigned_elsewhere.discard(name)
        elif isinstance(st, ast.AugAssign) and isinstance(st.target, ast.Name):
            name = st.target.id
            fake = ast.BinOp(left=ast.Name(id=name), op=st.op, right=st.value)
            try:
                rhs = tr.int(fake)
            except Untranslatable:
                assigned_elsewhere.add(name)
                tr.locals.pop(name, None)
                continue
            version[name] = version.get(name, 0) + 1
            ident = f"{lean_ident(name)}_{version[name]}"
            lets.append(f"let {ident} : Int := {rhs}")
            tr.locals[name] = ident
        elif isinstance(st, ast.If) and all(isinstance(s, ast.Raise) for s in st.body) and not st.orelse:
            continue
        elif isinstance(st, allow_skip):
            continue
        else:
            for sub in ast.walk(st):
                if isinstance(sub, ast.Name) and isinstance(sub.ctx, ast.Store):
                    assigned_elsewhere.add(sub.id)
                    tr.locals.pop(sub.id, None)
    for o in outputs:
        if o not in tr.locals:
            raise Untranslatable(f"output `{o}` is not a translatable local")
    return lets, dict(tr.locals)


def emit_def(name: str, params: list[str], lets: list[str], result: str, ret_type: str = "Int") -> str:
    ps = " ".join(f"({p} : Int)" for p in params)
    body = "\n".join("  " + l for l in lets + [result])
    return f"def {name} {ps} : {ret_type} :=\n{body}\n"
