import json, sys
from .gen import generate
for p in sys.argv[1:]:
    print(p, json.dumps(generate(p), indent=1))
